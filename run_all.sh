#!/bin/bash
# run every claimed check of a tier sequentially; summary on stdout
cd "$(dirname "$0")"
TIER=${1:-quick}
for p in $(python3 -c "import json;print(' '.join(c['property_id'] for c in json.load(open('MANIFEST.json'))['checks']))"); do
  s=$(date +%s)
  ./check $p --tier $TIER > /tmp/vf-$p-$TIER.log 2>&1
  rc=$?
  e=$(date +%s)
  echo "$p rc=$rc $((e-s))s $(grep -c 'INCONCLUSIVE\|HARNESS-ERROR\|VIOLATION' /tmp/vf-$p-$TIER.log) flagged"
done
