import xarray as xr
import xyzpy.gen.farming as fm
import xyzpy.manage as mg

class MiniDS:
    """1-d, 1-variable stand-in for xarray.Dataset: coord -> value or None (NaN)"""
    def __init__(self, cells): self.cells = dict(cells)
    def copy(self, deep=True): return MiniDS(self.cells)
    def close(self): pass
    def combine_first(self, other):
        out = dict(other.cells)
        for k, v in self.cells.items():
            if v is not None or k not in out:
                out[k] = v
        return MiniDS(out)
    def merge(self, other, compat=None):
        assert compat == 'no_conflicts'
        out = dict(self.cells)
        for k, v in other.cells.items():
            if k in out and out[k] is not None and v is not None:
                if out[k] != v:
                    raise xr.MergeError('conflict')
            elif k not in out or out[k] is None:
                out[k] = v
        return MiniDS(out)
    def same(self, other):
        return self.cells == other.cells

class Disk:
    def __init__(self): self.files = {}

class patched:
    def __enter__(self):
        d = self.d = Disk()
        self.saved = (fm.os, fm.load_ds, fm.save_ds)
        class P:
            @staticmethod
            def isfile(p): return p in d.files
            @staticmethod
            def exists(p): return p in d.files
        class OS:
            W_OK = 2
            path = P
            @staticmethod
            def access(p, mode): return p in d.files
            @staticmethod
            def remove(p):
                if p not in d.files: raise FileNotFoundError(p)
                del d.files[p]
        def save_ds(ds, file_name, engine='h5netcdf', **kw):
            d.files[mg.auto_add_extension(file_name, engine)] = ds.copy()
        def load_ds(file_name, engine='h5netcdf', **kw):
            return d.files[mg.auto_add_extension(file_name, engine)].copy()
        fm.os = OS; fm.load_ds = load_ds; fm.save_ds = save_ds
        return d
    def __exit__(self, *a):
        fm.os, fm.load_ds, fm.save_ds = self.saved
        return False
