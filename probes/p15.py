import stubs
from stepfs import patched
import xyzpy.gen.cropping as cp
from xyzpy.gen.combo_runner import combo_runner

import os as _os
FIXED = _os.environ.get('FIXED') == '1'
_orig_w = cp.write_to_disk
def concretize(v, lo, hi):
    for k in range(lo, hi + 1):
        if v == k:
            return k
    raise AssertionError

def h_wait(d0: int, d1: int, d2: int, d3: int, d4: int, r0: int, r1: int) -> bool:
    """
    pre: all(0 <= d <= 4 for d in (d0, d1, d2, d3, d4))
    post: _
    """
    ds = [d0, d1, d2, d3, d4]
    r = [r0, r1]
    def fn(a):
        return r[a]
    combos = {'a': [0, 1]}
    direct = combo_runner(fn, combos, verbosity=0)
    with patched() as fs:
        def write_to_disk(obj, fname):
            tmp = fname + '.tmp-' + str(cp.os.getpid())
            with cp.open(tmp, 'wb') as f:
                cp.pickle.dump(obj, f)
            cp.os.replace(tmp, fname)
        if FIXED: cp.write_to_disk = write_to_disk
        crop = cp.Crop(fn=fn, name='t', parent_dir='/p', batchsize=2)
        crop.sow_combos(combos, verbosity=0)
        # everything so far is the base state
        for ent in fs.log:
            for q, s in ent: fs.base[q] = s
        fs.log = []
        cp.grow(1, crop=crop, verbosity=0)          # writer: logged
        fs.t = 0; fs.deltas = ds                    # reader starts at instant 0
        out = crop.reap(wait=True, clean_up=False)
    cp.write_to_disk = _orig_w
    return out == direct
