import z3, time
for K in (250, 500):
    xs = [z3.Real(f'x{i}') for i in range(K)]
    count = 0; mean = z3.RealVal(0); M2 = z3.RealVal(0)
    for x in xs:
        count += 1
        delta = x - mean
        mean = mean + delta / count
        delta2 = x - mean
        M2 = M2 + delta * delta2
    S = sum(xs); Q = sum(x * x for x in xs)
    s = z3.Solver()
    s.add(z3.Or(mean * K != S, M2 != Q - S * S / K))
    t = time.time(); r = s.check(); print(K, r, round(time.time() - t, 2))
    # naive variant is algebraically identical -> also unsat (documented blind spot)
    # sqrt via fresh var
    sd = z3.Real('sd'); s2 = z3.Solver(); s2.add(sd >= 0, sd * sd == M2 / K)
    rt = z3.Real('rt'); at = z3.Real('at'); s2.add(rt > 0, at >= 0)
    err = z3.Real('err'); s2.add(err >= 0, err * err * K == sd * sd)
