import stubs
import random
from typing import List, Tuple
import xyzpy.gen.combo_runner as cr
from xyzpy.gen.combo_runner import combo_runner

class NDRandom:
    """nondeterministic stand-in for the `random` module used by combo_runner_core"""
    def __init__(self, js):
        self.js = js
    def seed(self, s):
        pass
    def shuffle(self, x):
        # Fisher-Yates with externally chosen (symbolic) indices
        for i in reversed(range(1, len(x))):
            j = self.js[i]
            if j != i:
                x[i], x[j] = x[j], x[i]

def h_shuf(a0: int, a1: int, b0: int, b1: int, b2: int, j1: int, j2: int, j3: int, j4: int, j5: int, r: List[int]) -> bool:
    """
    pre: a0 != a1 and b0 != b1 and b0 != b2 and b1 != b2
    pre: len(r) == 6
    pre: 0 <= j1 <= 1 and 0 <= j2 <= 2 and 0 <= j3 <= 3 and 0 <= j4 <= 4 and 0 <= j5 <= 5
    post: _
    """
    calls = []
    def fn(a, b):
        calls.append((a, b))
        return r[len(calls) - 1]
    old = cr.random
    cr.random = NDRandom([0, j1, j2, j3, j4, j5])
    try:
        out = combo_runner(fn, {'a': [a0, a1], 'b': [b0, b1, b2]}, verbosity=0, shuffle=True)
    finally:
        cr.random = old
    A = [a0, a1]; B = [b0, b1, b2]
    ok = len(calls) == 6
    for i in range(2):
        for j in range(3):
            k = calls.index((A[i], B[j]))
            ok = ok and out[i][j] == r[k]
    return ok
