"""prototype: writer log + reader view at symbolic instants"""
import posixpath, fnmatch, copy
import xyzpy.gen.cropping as cp

class FState:
    def __init__(self, obj=None, written=0, total=0):
        self.obj, self.written, self.total = obj, written, total
    def clone(self): return FState(self.obj, self.written, self.total)

class Crash(BaseException):
    pass

class StepFS:
    K = 2
    def __init__(self):
        self.base = {}      # path -> FState   (state before the logged writer)
        self.dirs = set()
        self.log = []       # (path, FState|None)
        self.t = None       # None: writer mode (see everything); int: reader instant
        self.deltas = []    # symbolic advances for the reader
    # --- view
    def view(self, p):
        st = self.base.get(p)
        upto = len(self.log) if self.t is None else self.t
        for ent in self.log[:upto]:
            for q, s in ent:
                if q == p: st = s
        return st
    def paths(self):
        ps = set(self.base)
        for ent in self.log:
            for q, _ in ent: ps.add(q)
        return [p for p in sorted(ps) if self.view(p) is not None]
    def tick(self, at_least=0):
        if self.t is None or self.t >= len(self.log): return
        rem = len(self.log) - self.t
        if self.deltas:
            raw = self.deltas.pop(0)
            d = rem
            for k in range(at_least, rem):
                if raw == k:
                    d = k
                    break
        else:
            d = rem
        self.t = self.t + d
    budget = None
    def emit(self, p, st):
        if self.t is not None:
            raise RuntimeError('reader must not write in this prototype')
        if self.budget is not None:
            if self.budget == 0:
                self.budget = None
                raise Crash()
            self.budget -= 1
        self.log.append([(p, st)])
    def emit_replace(self, src, dst):
        st = self.view(src)
        if st is None: raise FileNotFoundError(src)
        self.log.append([(src, None), (dst, st.clone())])

class Handle:
    def __init__(self, fs, p, mode):
        self.fs, self.p, self.mode = fs, p, mode
        if 'w' in mode:
            self.st = FState(None, 0, 0); fs.emit(p, self.st.clone())       # create/truncate
        else:
            fs.tick()
            st = fs.view(p)
            if st is None: raise FileNotFoundError(p)
            self.st = st
    def __enter__(self): return self
    def __exit__(self, *a): return False

class Pickle:
    def __init__(self, fs): self.fs = fs
    def dump(self, obj, h):
        for k in range(1, StepFS.K + 1):
            h.st = FState(obj, k, StepFS.K); self.fs.emit(h.p, h.st.clone())
    def load(self, h):
        if h.st.total == 0 or h.st.written < h.st.total:
            raise EOFError('Ran out of input')
        return h.st.obj

class patched:
    def __init__(self): self.fs = StepFS()
    def __enter__(self):
        fs = self.fs
        names = ('os', 'glob', 'shutil', 'pickle', 'time', 'to_pickle', 'from_pickle')
        self.saved = {k: getattr(cp, k) for k in names}
        class P:
            join = staticmethod(posixpath.join); split = staticmethod(posixpath.split)
            @staticmethod
            def exists(p): fs.tick(); return fs.view(p) is not None or p in fs.dirs
            @staticmethod
            def isfile(p): fs.tick(); return fs.view(p) is not None
        class OS:
            path = P; environ = {}
            @staticmethod
            def makedirs(p, exist_ok=False):
                parts = p.split('/')
                for i in range(1, len(parts) + 1): fs.dirs.add('/'.join(parts[:i]))
            @staticmethod
            def getcwd(): return '/cwd'
            @staticmethod
            def replace(a, b): fs.emit_replace(a, b)
            @staticmethod
            def getpid(): return 4242
            @staticmethod
            def remove(p):
                if fs.view(p) is None: raise FileNotFoundError(p)
                fs.emit(p, None)
        class G:
            @staticmethod
            def glob(pat): fs.tick(); return [p for p in fs.paths() if fnmatch.fnmatchcase(p, pat)]
        class T:
            @staticmethod
            def sleep(s): fs.tick(at_least=1)
        class SH:
            @staticmethod
            def rmtree(d):
                for p in fs.paths():
                    if p.startswith(d + '/'): fs.emit(p, None)
                for x in [x for x in fs.dirs if x == d or x.startswith(d + '/')]: fs.dirs.discard(x)
        cp.shutil = SH
        cp.os = OS; cp.glob = G; cp.pickle = Pickle(fs); cp.time = T
        cp.open = lambda p, mode='r': Handle(fs, p, mode)
        cp.to_pickle = lambda o, picklelib=None: ('PKL', o)
        cp.from_pickle = lambda s, picklelib=None: s[1]
        return fs
    def __exit__(self, *a):
        for k, v in self.saved.items(): setattr(cp, k, v)
        del cp.open
        return False
