import stubs
from typing import List, Tuple
import xyzpy.gen.combo_runner as cr
from xyzpy.gen.combo_runner import combo_runner
from p3 import NDRandom

def h_shuf(j1: int, j2: int, j3: int, r: List[int]) -> bool:
    """
    pre: len(r) == 4
    pre: 0 <= j1 <= 1 and 0 <= j2 <= 2 and 0 <= j3 <= 3
    post: _
    """
    calls = []
    def fn(a, b):
        calls.append((a, b))
        return r[len(calls) - 1]
    old = cr.random
    cr.random = NDRandom([0, j1, j2, j3])
    try:
        out = combo_runner(fn, {'a': [10, 11], 'b': [20, 21]}, verbosity=0, shuffle=True)
    finally:
        cr.random = old
    A = [10, 11]; B = [20, 21]
    ok = len(calls) == 4
    for i in range(2):
        for j in range(2):
            k = calls.index((A[i], B[j]))
            ok = ok and out[i][j] == r[k]
    return ok
