"""prototype in-memory FS + patching of xyzpy.gen.cropping globals"""
import fnmatch, posixpath
import xyzpy.gen.cropping as cp

class FakeFS:
    def __init__(self):
        self.files = {}   # path -> object
        self.dirs = set()
    # os-like
    def makedirs(self, p, exist_ok=False):
        parts = p.split('/')
        for i in range(1, len(parts) + 1):
            self.dirs.add('/'.join(parts[:i]))
    def exists(self, p): return p in self.files or p in self.dirs
    def isfile(self, p): return p in self.files
    def remove(self, p):
        if p not in self.files: raise FileNotFoundError(p)
        del self.files[p]
    def rmtree(self, p):
        if p not in self.dirs: raise FileNotFoundError(p)
        pre = p + '/'
        for k in [k for k in self.files if k.startswith(pre)]: del self.files[k]
        for d in [d for d in self.dirs if d == p or d.startswith(pre)]: self.dirs.discard(d)
    def glob(self, pat):
        return [k for k in self.files if fnmatch.fnmatchcase(k, pat)]

class _Path:
    def __init__(self, fs): self.fs = fs
    join = staticmethod(posixpath.join)
    split = staticmethod(posixpath.split)
    relpath = staticmethod(posixpath.relpath)
    def exists(self, p): return self.fs.exists(p)
    def isfile(self, p): return self.fs.isfile(p)

class _OS:
    def __init__(self, fs):
        self.fs = fs; self.path = _Path(fs); self.environ = {}
    def makedirs(self, p, exist_ok=False): self.fs.makedirs(p, exist_ok)
    def remove(self, p): self.fs.remove(p)
    def getcwd(self): return '/cwd'

class _Glob:
    def __init__(self, fs): self.fs = fs
    def glob(self, pat): return self.fs.glob(pat)

class _Shutil:
    def __init__(self, fs): self.fs = fs
    def rmtree(self, p): self.fs.rmtree(p)

class patched:
    def __init__(self):
        self.fs = FakeFS()
    def __enter__(self):
        fs = self.fs
        self.saved = {k: getattr(cp, k) for k in ('os','glob','shutil','write_to_disk','read_from_disk','to_pickle','from_pickle')}
        cp.os = _OS(fs); cp.glob = _Glob(fs); cp.shutil = _Shutil(fs)
        def write_to_disk(obj, fname): fs.files[fname] = obj
        def read_from_disk(fname):
            if fname not in fs.files: raise FileNotFoundError(fname)
            return fs.files[fname]
        cp.write_to_disk = write_to_disk; cp.read_from_disk = read_from_disk
        cp.to_pickle = lambda o, picklelib=None: ('PKL', o)
        cp.from_pickle = lambda s, picklelib=None: s[1]
        return fs
    def __exit__(self, *a):
        for k, v in self.saved.items(): setattr(cp, k, v)
        return False
