import stubs
from fakefs import patched
import xyzpy.gen.cropping as cp
from xyzpy.gen.combo_runner import combo_runner

def concretize(v, lo, hi):
    for k in range(lo, hi + 1):
        if v == k:
            return k
    raise AssertionError

def h_sgr(nb: int, use_nb: bool, r0: int, r1: int, r2: int, r3: int, r4: int, r5: int) -> bool:
    """
    pre: 1 <= nb <= 8
    post: _
    """
    nb = concretize(nb, 1, 8)
    r = [r0, r1, r2, r3, r4, r5]
    combos = {'a': [10, 11], 'b': [20, 21, 22]}
    def fn(a, b):
        return r[(a - 10) * 3 + (b - 20)]
    direct = combo_runner(fn, combos, verbosity=0)
    with patched() as fs:
        if use_nb:
            crop = cp.Crop(fn=fn, name='t', parent_dir='/p', num_batches=nb)
        else:
            crop = cp.Crop(fn=fn, name='t', parent_dir='/p', batchsize=nb)
        crop.sow_combos(combos, verbosity=0)
        nbt = crop.num_batches
        for i in range(1, nbt + 1):
            cp.grow(i, crop=crop, verbosity=0)
        out = crop.reap()
        gone = not fs.exists('/p/.xyz-t')
    return out == direct and gone
