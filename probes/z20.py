import z3, time, itertools
from fractions import Fraction as F
def p10(k): return z3.RealVal(F(10)**k)

def sci(sol, v_abs, e0, p, tag):
    """model of f'{v:.{p}e}' for |v| in [10^e0, 10^(e0+1)): returns (digits Int with p+1 digits, exp Int)"""
    m = z3.Int('m_'+tag)
    scaled = v_abs * p10(p - e0)
    sol.add(z3.ToReal(m) - F(1,2) <= scaled, scaled <= z3.ToReal(m) + F(1,2))
    top = 10**(p+1)
    digits = z3.If(m == top, z3.IntVal(10**p), m)
    exp = z3.If(m == top, z3.IntVal(e0+1), z3.IntVal(e0))
    return digits, exp

def check(e0x, e0e, sign, fixed=False):
    sol = z3.Solver()
    x = z3.Real('x'); err = z3.Real('err')
    xa = x if sign > 0 else -x
    sol.add(xa >= p10(e0x), xa < p10(e0x+1), err >= p10(e0e), err < p10(e0e+1))
    _, ex = sci(sol, xa, e0x, 6, 'x6')
    _, ee = sci(sol, err, e0e, 6, 'e6')
    xe = z3.If(ex >= ee + 1, ex, ee + 1)
    hide = z3.Or(xe == 0, xe == -1, z3.And(xe == 1, err < xa / 10))
    # xe ranges over small set: enumerate concrete candidates for 10**xe
    cands = sorted({e0x, e0x+1, e0e+1, e0e+2})
    res = []
    for xev in cands:
        for hidev in (True, False):
            s2 = z3.Solver(); s2.add(sol.assertions()); s2.add(xe == xev, hide == hidev)
            if hidev:
                x2, e2, E = xa, err, 0
                # class of err unchanged
                e0e2 = e0e
            else:
                x2, e2, E = xa / p10(xev), err / p10(xev), xev
                e0e2 = e0e - xev
            m2, exp2 = sci(s2, e2, e0e2, 1, 'e1')
            # decimals
            for expv in (e0e2, e0e2+1):
                s3 = z3.Solver(); s3.add(s2.assertions()); s3.add(exp2 == expv)
                d = (max(0, 1 - expv) if fixed else abs(expv) + 1)
                n = z3.Int('n')
                sc = x2 * p10(d)
                s3.add(z3.ToReal(n) - F(1,2) <= sc, sc <= z3.ToReal(n) + F(1,2))
                u = F(10)**(E - d)
                # spec
                S1 = z3.And(m2 >= 10, m2 <= 99, err - z3.ToReal(m2)*u <= u/2, z3.ToReal(m2)*u - err <= u/2)
                S2 = z3.And(xa - z3.ToReal(n)*u <= u/2, z3.ToReal(n)*u - xa <= u/2)
                s3.add(z3.Not(z3.And(S1, S2)))
                r = s3.check()
                if str(r) != 'unsat':
                    mdl = s3.model()
                    res.append((xev, hidev, expv, str(r), mdl[x], mdl[err]))
    return res
t = time.time(); nq = 0
for fixed in (False, True):
    bad = []
    for e0x, rel, sign in itertools.product(range(-4, 5), range(-6, 7), (1, -1)):
        r = check(e0x, e0x + rel, sign, fixed)
        if r: bad.append((e0x, e0x+rel, sign, r[:1]))
    print('fixed' if fixed else 'as-written', len(bad), 'failing classes', round(time.time()-t, 1), 's')
    for b in bad[:8]: print('  ', b)
