import stubs
import xyzpy.gen.combo_runner as cr
from minixr import MiniXRModule, MiniNP
from p3 import NDRandom

def concretize(v, lo, hi):
    for k in range(lo, hi + 1):
        if v == k:
            return k
    raise AssertionError

def h_ds(j1: int, j2: int, j3: int, spell: int, c: int, r0: int, r1: int, r2: int, r3: int, r4: int, r5: int, r6: int, r7: int) -> bool:
    """
    pre: 0 <= j1 <= 1 and 0 <= j2 <= 2 and 0 <= j3 <= 3 and 0 <= spell <= 2
    post: _
    """
    r = [r0, r1, r2, r3, r4, r5, r6, r7]
    def fn(a, b, t):
        k = (a - 10) * 2 + (b - 20)
        return r[k], [r[4 + k], r[k] + t]          # x scalar, y has internal dim 'w'
    var_dims = [{'y': 'w'}, {'y': ('w',), 'x': ()}, {('y',): ['w']}][concretize(spell, 0, 2)]
    saved = (cr.random, cr.xr, cr.np)
    cr.random, cr.xr, cr.np = NDRandom([0, j1, j2, j3]), MiniXRModule, MiniNP
    try:
        ds = cr.combo_runner_to_ds(fn, {'a': [10, 11], 'b': [20, 21]}, var_names=['x', 'y'], var_dims=var_dims,
                                   var_coords={'w': [0, 1]}, constants={'t': c}, resources={}, attrs={'foo': 'bar'},
                                   verbosity=0, shuffle=True)
    finally:
        cr.random, cr.xr, cr.np = saved
    ok = ds['x'].dims == ('a', 'b') and ds['y'].dims == ('a', 'b', 'w') and ds.attrs == {'foo': 'bar', 't': c}
    for a in (10, 11):
        for b in (20, 21):
            k = (a - 10) * 2 + (b - 20)
            ok = ok and ds['x'].sel(a=a, b=b) == r[k] and ds['y'].sel(a=a, b=b, w=0) == r[4 + k] and ds['y'].sel(a=a, b=b, w=1) == r[k] + c
    return ok
