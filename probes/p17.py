import stubs
from stepfs import patched, Crash
import xyzpy.gen.cropping as cp
from xyzpy.gen.combo_runner import combo_runner

def h_crash(c: int, r0: int, r1: int, r2: int) -> bool:
    """
    pre: 0 <= c <= 5
    post: _
    """
    r = [r0, r1, r2]
    def fn(a):
        return r[a]
    combos = {'a': [0, 1, 2]}
    direct = combo_runner(fn, combos, verbosity=0)
    with patched() as fs:
        crop = cp.Crop(fn=fn, name='t', parent_dir='/p', batchsize=2)
        crop.sow_combos(combos, verbosity=0)
        cp.grow(1, crop=crop, verbosity=0)
        budget = 5
        for k in range(0, 5):
            if c == k:
                budget = k
                break
        fs.budget = budget
        crashed = False
        try:
            cp.grow(2, crop=crop, verbosity=0)
        except Crash:
            crashed = True
        fs.budget = None
        # fresh process: safety
        crop2 = cp.Crop(name='t', parent_dir='/p')
        try:
            out = crop2.reap(clean_up=False)
            safe = (out == direct)
        except Exception:
            safe = True
        # recovery
        crop3 = cp.Crop(name='t', parent_dir='/p')
        crop3.check_bad()
        crop3.grow_missing()
        out = crop3.reap()
    return safe and out == direct
