import z3, time
NMAX = 48
def run(mode):
    n = z3.Int('n'); s_in = z3.Int('s'); k_in = z3.Int('k')
    sol = z3.Solver()
    sol.add(n >= 1, n <= NMAX)
    if mode == 'size':
        sol.add(s_in >= 1, s_in <= NMAX + 1)
        bs = s_in
        nb = z3.If(n % bs == 0, n / bs, n / bs + 1)   # ceil
        rem = z3.IntVal(0)
    else:
        sol.add(k_in >= 1, k_in <= NMAX + 2)
        nb = z3.If(n < k_in, n, k_in)
        bs = n / nb; rem = n % nb
    # Sower loop, merged
    counter = z3.IntVal(0); bc = z3.IntVal(0)
    sizes = z3.K(z3.IntSort(), z3.IntVal(-1))   # batch id -> size
    for j in range(NMAX):
        active = j < n
        c2 = counter + 1
        extra = z3.If(bc < rem, 1, 0)
        full = c2 == bs + extra
        nbc = z3.If(full, bc + 1, bc)
        sizes = z3.If(z3.And(active, full), z3.Store(sizes, bc + 1, c2), sizes)
        counter = z3.If(active, z3.If(full, 0, c2), counter)
        bc = z3.If(active, nbc, bc)
    # exit
    sizes = z3.If(counter > 0, z3.Store(sizes, bc + 1, counter), sizes)
    bc = z3.If(counter > 0, bc + 1, bc)
    i = z3.Int('i')
    # property: bc == nb and for all 1<=i<=nb: sizes[i] >= 1, <= bs(+1), reaper size agrees
    reaper_size = bs + z3.If(i < rem, 1, 0)      # code as written (off by one)
    reaper_size_ok = bs + z3.If(i <= rem, 1, 0)
    bad = z3.Or(bc != nb,
                z3.And(i >= 1, i <= nb, z3.Or(sizes[i] < 1, sizes[i] > bs + 1)))
    sol.push(); sol.add(bad); t=time.time(); r = sol.check(); print(mode, 'partition', r, round(time.time()-t,2)); sol.pop()
    sol.push(); sol.add(i >= 1, i <= nb, sizes[i] != reaper_size); t=time.time(); r = sol.check(); print(mode, 'reaper-as-written', r, round(time.time()-t,2), sol.model() if r==z3.sat else ''); sol.pop()
    sol.push(); sol.add(i >= 1, i <= nb, sizes[i] != reaper_size_ok); t=time.time(); r = sol.check(); print(mode, 'reaper-fixed', r, round(time.time()-t,2)); sol.pop()
run('size'); run('count')
