import stubs
from fakefs import patched
import xyzpy.gen.cropping as cp
import cloudpickle

def f(a, b):
    return a * 100 + b

def concretize(v, lo, hi):
    for k in range(lo, hi + 1):
        if v == k:
            return k
    raise AssertionError

def h_pkl(x: int) -> bool:
    """
    pre: 0 <= x <= 3
    post: _
    """
    s = cloudpickle.dumps(f)
    g = cloudpickle.loads(s)
    return g(x, 1) == x * 100 + 1

def h_script(sch: int, mode: int, nres: int, nb: int) -> bool:
    """
    pre: 0 <= sch <= 2 and 0 <= mode <= 1 and 1 <= nb <= 3 and 0 <= nres < nb
    post: _
    """
    nb = concretize(nb, 1, 3); nres = concretize(nres, 0, 2)
    with patched() as fs:
        crop = cp.Crop(fn=f, name='t', parent_dir='/p', num_batches=nb, save_fn=False)
        crop.sow_combos({'a': [1, 2, 3], 'b': [4]}, verbosity=0)
        for i in range(1, nres + 1):
            cp.grow(i, crop=crop, fn=f, verbosity=0)
        script = crop.gen_cluster_script(['sge', 'pbs', 'slurm'][sch], mode=['array', 'single'][mode], num_procs=1, conda_env=False, output_directory='/o')
    prog = script.split("<< EOM\n")[1].split("EOM\n")[0]
    import ast
    for v in ('$SGE_TASK_ID', '$PBS_ARRAY_INDEX', '$SLURM_ARRAY_TASK_ID'):
        prog = prog.replace(v, '1')
    ast.parse(prog)
    return True
