"""prototype MiniXR: only constructor + sel + dims, enough for results_to_ds"""
import itertools

def shape_of(x):
    if isinstance(x, (tuple, list)):
        return (len(x),) + (shape_of(x[0]) if len(x) else ())
    return ()

class NestedArray:
    def __init__(self, data): self.data = data; self.shape = shape_of(data)

class MiniNP:
    nan = float('nan')
    @staticmethod
    def asarray(x): return NestedArray(x)

class DataArray:
    def __init__(self, dims, cells, coords): self.dims, self.cells, self.coords = dims, cells, coords
    def sel(self, **lab):
        key = tuple(lab[d] for d in self.dims)
        return self.cells[key]

class Dataset:
    def __init__(self, data_vars=None, coords=None):
        self.coords = {k: list(v) for k, v in (coords or {}).items()}
        self.vars = {}
        self.attrs = {}
        for name, (dims, arr) in (data_vars or {}).items():
            dims = tuple(dims)
            want = tuple(len(self.coords[d]) for d in dims)
            if arr.shape[:len(dims)] != want or len(arr.shape) != len(dims):
                raise ValueError(f'conflicting sizes for {name}: {arr.shape} vs {want}')
            cells = {}
            for idx in itertools.product(*(range(n) for n in want)):
                v = arr.data
                for i in idx: v = v[i]
                cells[tuple(self.coords[d][i] for d, i in zip(dims, idx))] = v
            self.vars[name] = DataArray(dims, cells, self.coords)
    @property
    def dims(self): return {d: len(v) for d, v in self.coords.items()}
    def __getitem__(self, k): return self.vars[k]

class MiniXRModule:
    Dataset = Dataset; DataArray = DataArray
