import xarray as xr
from minids import MiniDS, patched
import xyzpy.gen.farming as fm
from typing import Optional

def oracle(old, new, ow):
    """cell-level policy oracle; returns merged dict or None for conflict"""
    out = dict(old)
    for k, v in new.items():
        if k not in out or out[k] is None:
            out[k] = v
        elif v is None:
            pass
        elif ow is True:
            out[k] = v
        elif ow is False:
            pass
        else:
            if out[k] != v:
                return None
    return out

def pol(i):
    return [None, True, False][i]

def h_hist(p1: int, p2: int, a0: int, a1: int, b1: int, b2: int, na: bool, nb: bool, fresh: bool, ext: bool) -> bool:
    """
    pre: 0 <= p1 <= 2 and 0 <= p2 <= 2 and ext
    post: _
    """
    name = 'data.h5' if ext else 'data'
    A = {0: a0, 1: (None if na else a1)}
    B = {1: (None if nb else b1), 2: b2}
    with patched() as disk:
        h = fm.Harvester(None, data_name=name)
        h.add_ds(MiniDS(A), overwrite=pol(p1))
        exp = dict(A)
        if fresh:
            h = fm.Harvester(None, data_name=name)
        try:
            h.add_ds(MiniDS(B), overwrite=pol(p2))
            raised = False
        except xr.MergeError:
            raised = True
        exp2 = oracle(exp, B, pol(p2))
        if exp2 is None:
            ok = raised
            exp2 = exp
        else:
            ok = not raised
        mem = h.full_ds.cells
        dsk = disk.files['data.h5'].cells
        return ok and mem == exp2 and dsk == exp2
