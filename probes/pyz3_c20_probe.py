"""Probe: translate the *source* of xyzpy.utils.format_number_with_error (AST) into z3
real arithmetic, one query per decade class, relational spec.  Not framework code."""
import ast, copy, sys, time, itertools
from fractions import Fraction as F
import z3

SRC = sys.argv[1] if len(sys.argv) > 1 else '/repo/xyzpy/utils.py'
tree = ast.parse(open(SRC).read())
FN = next(n for n in ast.walk(tree) if isinstance(n, ast.FunctionDef) and n.name == 'format_number_with_error')

def p10(k): return z3.RealVal(F(10) ** k)

class SymReal:            # real term with known decade (|v| in [10^dec, 10^(dec+1))) or zero
    def __init__(s, t, dec, sign): s.t, s.dec, s.sign = t, dec, sign   # sign: +1/-1 ; t is signed term
    def absterm(s): return s.t if s.sign > 0 else -s.t
class Sci:                # f"{v:.{p}e}"
    def __init__(s, digits, exp, sign, p): s.digits, s.exp, s.sign, s.p = digits, exp, sign, p
class Mant:
    def __init__(s, sci): s.sci = sci
class ExpStr:
    def __init__(s, e): s.e = e
class Digits:
    def __init__(s, n): s.n = n
class Fixed:
    def __init__(s, n, d, sign): s.n, s.d, s.sign = n, d, sign
class Suffix:
    def __init__(s, k): s.k = k
class Out:
    def __init__(s, parts): s.parts = parts
class NeedSplit(Exception):
    def __init__(s, term): s.term = term
class St:
    def __init__(s): s.env = {}; s.pc = []; s.known = {}; s.fresh = 0
    def clone(s):
        c = St(); c.env = dict(s.env); c.pc = list(s.pc); c.known = dict(s.known); c.fresh = s.fresh; return c
    def new_int(s, tag):
        s.fresh += 1; return z3.Int(f'{tag}_{s.fresh}_{id(s) % 9973}')
def feasible(pc):
    sol = z3.Solver(); sol.add(pc); return str(sol.check()) == 'sat'
def conc(st, v):
    if isinstance(v, bool): return int(v)
    if isinstance(v, int): return v
    key = v.sexpr()
    if key in st.known: return st.known[key]
    sv = z3.simplify(v)
    if z3.is_int_value(sv): return sv.as_long()
    raise NeedSplit(v)

def fmt(st, v, spec):
    if spec.endswith('e'):
        p = 6 if spec == 'e' else int(spec[1:-1])
        assert isinstance(v, SymReal), 'sci format of non-real'
        m = st.new_int('m')
        sc = v.absterm() * p10(p - v.dec)
        st.pc += [z3.ToReal(m) - F(1, 2) <= sc, sc <= z3.ToReal(m) + F(1, 2)]
        top = 10 ** (p + 1)
        return Sci(z3.If(m == top, z3.IntVal(10 ** p), m), z3.If(m == top, z3.IntVal(v.dec + 1), z3.IntVal(v.dec)), v.sign, p)
    if spec.endswith('f'):
        d = int(spec[1:-1])
        if d < 0: raise ValueError('negative precision')
        n = st.new_int('n'); sc = v.absterm() * p10(d)
        st.pc += [z3.ToReal(n) - F(1, 2) <= sc, sc <= z3.ToReal(n) + F(1, 2)]
        return Fixed(n, d, v.sign)
    if spec == '+03d': return Suffix(v)
    raise NotImplementedError(spec)

def ev(st, e):
    if isinstance(e, ast.Constant): return e.value
    if isinstance(e, ast.Name): return st.env[e.id]
    if isinstance(e, ast.Tuple): return tuple(ev(st, x) for x in e.elts)
    if isinstance(e, ast.JoinedStr):
        parts = []
        for v in e.values:
            if isinstance(v, ast.Constant): parts.append(v.value)
            else:
                val = ev(st, v.value)
                spec = ''
                if v.format_spec is not None:
                    for sv in v.format_spec.values:
                        spec += sv.value if isinstance(sv, ast.Constant) else str(conc(st, ev(st, sv.value)))
                parts.append(fmt(st, val, spec) if spec else val)
        return parts[0] if len(parts) == 1 and not isinstance(parts[0], str) else Out(parts)
    if isinstance(e, ast.Call):
        if isinstance(e.func, ast.Attribute):
            o = ev(st, e.func.value); a = [ev(st, x) for x in e.args]
            if e.func.attr == 'split' and isinstance(o, Sci) and a == ['e']: return [Mant(o), ExpStr(o.exp)]
            if e.func.attr == 'replace' and isinstance(o, Mant) and a == ['.', '']: return Digits(o.sci.digits)
            raise NotImplementedError(ast.dump(e))
        f = e.func.id; a = [ev(st, x) for x in e.args]
        if f == 'int':
            return a[0].e if isinstance(a[0], ExpStr) else a[0]
        if f == 'max': return z3.If(a[0] >= a[1], a[0], a[1])
        if f == 'abs':
            if isinstance(a[0], SymReal): return SymReal(a[0].absterm(), a[0].dec, +1)
            if isinstance(a[0], int): return abs(a[0])
            return z3.If(a[0] >= 0, a[0], -a[0])
        raise NotImplementedError(f)
    if isinstance(e, ast.Subscript):
        return ev(st, e.value)[ev(st, e.slice)]
    if isinstance(e, ast.UnaryOp):
        v = ev(st, e.operand)
        return -v if isinstance(e.op, ast.USub) else v
    if isinstance(e, ast.BinOp):
        l = ev(st, e.left)
        if isinstance(e.op, ast.Pow):
            assert l == 10; return ('pow10', conc(st, ev(st, e.right)))
        r = ev(st, e.right)
        if isinstance(e.op, ast.Add): return l + r
        if isinstance(e.op, ast.Sub): return l - r
        if isinstance(e.op, ast.Div):
            k = r[1] if isinstance(r, tuple) else {10: 1}[r]
            return SymReal(l.t / p10(k), l.dec - k, l.sign)
        raise NotImplementedError(ast.dump(e))
    if isinstance(e, ast.Compare):
        l = ev(st, e.left); op = e.ops[0]; r = ev(st, e.comparators[0])
        if isinstance(op, ast.In): return z3.Or([l == c for c in r])
        lt = l.t if isinstance(l, SymReal) else l; rt = r.t if isinstance(r, SymReal) else r
        if isinstance(op, ast.Eq): return lt == rt
        if isinstance(op, ast.Lt): return lt < rt
        raise NotImplementedError(ast.dump(e))
    if isinstance(e, ast.BoolOp):
        vs = [ev(st, v) for v in e.values]
        return (z3.Or if isinstance(e.op, ast.Or) else z3.And)(vs)
    raise NotImplementedError(ast.dump(e))

def assign(st, tgt, val):
    if isinstance(tgt, ast.Name): st.env[tgt.id] = val
    else:
        for t, v in zip(tgt.elts, val): assign(st, t, v)

def run(st, stmts):
    """returns list of (state, retval | exception)"""
    if not stmts: return [(st, None)]
    s, rest = stmts[0], stmts[1:]
    if isinstance(s, ast.Expr) and isinstance(s.value, ast.Constant): return run(st, rest)   # docstring
    try:
        st2 = st.clone()
        if isinstance(s, ast.Assign):
            assign(st2, s.targets[0], ev(st2, s.value)); return run(st2, rest)
        if isinstance(s, ast.Return):
            return [(st2, ev(st2, s.value))]
        if isinstance(s, ast.If):
            c = ev(st2, s.test); out = []
            for cond, body in ((c, s.body), (z3.Not(c), s.orelse)):
                b = st2.clone(); b.pc.append(cond)
                if feasible(b.pc): out += run(b, body + rest)
            return out
        raise NotImplementedError(ast.dump(s))
    except NeedSplit as ns:
        out = []; pc = list(st.pc)
        while True:
            sol = z3.Solver(); sol.add(pc)
            if str(sol.check()) != 'sat': break
            v = sol.model().eval(ns.term, model_completion=True).as_long()
            b = st.clone(); b.pc.append(ns.term == v); b.known[ns.term.sexpr()] = v
            out += run(b, stmts)
            pc.append(ns.term != v)
        return out
    except ValueError as ex:
        return [(st, ex)]

def check_class(a, b, sign):
    st = St(); x = z3.Real('x'); err = z3.Real('err')
    X = SymReal(x, a, sign); E = SymReal(err, b, +1)
    st.pc += [X.absterm() >= p10(a), X.absterm() < p10(a + 1), err >= p10(b), err < p10(b + 1)]
    st.env = {FN.args.args[0].arg: X, FN.args.args[1].arg: E}
    bad = []; npaths = 0
    for fs, ret in run(st, FN.body):
        npaths += 1
        if isinstance(ret, Exception): bad.append(('exception', repr(ret), None)); continue
        fx, lp, dg, rp, suf = ret.parts
        assert isinstance(fx, Fixed) and lp == '(' and isinstance(dg, Digits) and rp == ')'
        if isinstance(suf, Out):
            assert suf.parts[0] == 'e' and isinstance(suf.parts[1], Suffix)
            K = conc(fs, suf.parts[1].k)
        else:
            assert suf == ''
            K = 0
        u = F(10) ** (K - fx.d)
        S1 = z3.And(dg.n >= 10, dg.n <= 99, err - z3.ToReal(dg.n) * u <= u / 2, z3.ToReal(dg.n) * u - err <= u / 2)
        xa = X.absterm()
        S2 = z3.And(xa - z3.ToReal(fx.n) * u <= u / 2, z3.ToReal(fx.n) * u - xa <= u / 2)
        sol = z3.Solver(); sol.add(fs.pc); sol.add(z3.Not(z3.And(S1, S2)))
        r = str(sol.check())
        if r != 'unsat':
            m = sol.model(); bad.append((r, m[x], m[err]))
    return npaths, bad

t0 = time.time(); tot = 0; fails = []
for a, rel, sign in itertools.product(range(-4, 5), range(-6, 7), (1, -1)):
    n, bad = check_class(a, a + rel, sign); tot += n
    if bad: fails.append((a, a + rel, sign, bad[0]))
print('source:', SRC, '| classes:', 9 * 13 * 2, '| paths:', tot, '| failing classes:', len(fails), '| %.1fs' % (time.time() - t0))
for f in fails[:6]: print('  ', f)
