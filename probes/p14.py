import xyzpy.utils as U
from xyzpy.utils import estimate_from_repeats, RunningStatistics

def concretize(v, lo, hi):
    for k in range(lo, hi + 1):
        if v == k:
            return k
    raise AssertionError

def h_est(mn: int, mx: int, v0: int, v1: int, v2: int, v3: int, v4: int, v5: int,
          c0: bool, c1: bool, c2: bool, c3: bool, c4: bool, c5: bool) -> bool:
    """
    pre: 0 <= mn <= 3 and 1 <= mx <= 6
    post: _
    """
    mn = concretize(mn, 0, 3); mx = concretize(mx, 1, 6)
    vals = [v0, v1, v2, v3, v4, v5]; conv = [c0, c1, c2, c3, c4, c5]
    calls = []; asked = []
    def fn():
        calls.append(1)
        return vals[len(calls) - 1]
    old = RunningStatistics.converged
    def converged(self, rtol, atol):
        asked.append(self.count)
        return conv[self.count - 1]
    RunningStatistics.converged = converged
    try:
        rs, xs = estimate_from_repeats(fn, min_samples=mn, max_samples=mx, get='samples')
    finally:
        RunningStatistics.converged = old
    n = len(calls)
    ok = rs.count == n and n <= mx and xs == vals[:n]
    if n < mx:
        ok = ok and conv[n - 1] and n - 1 > mn
    # never stops early while not converged: every earlier asked count was not converged
    for k in asked[:-1]:
        ok = ok and not conv[k - 1]
    return ok
