import xyzpy.gen.combo_runner as cr
import xyzpy.gen.cropping as cp
import xyzpy.gen.case_runner as ca

class _NoBar:
    def __init__(self, it=None, **kw):
        self.it = it
    def __enter__(self): return self
    def __exit__(self, *a): return False
    def __iter__(self): return iter(self.it)
    def update(self, n=1): pass
    def set_description(self, *a, **k): pass
    def close(self): pass

def progbar(it=None, nb=False, **kw):
    return _NoBar(it)

cr.progbar = progbar
cp.progbar = progbar
ca.progbar = progbar
