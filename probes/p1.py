import stubs
from typing import List, Tuple
from xyzpy.gen.combo_runner import combo_runner

def h_grid2(a0: int, a1: int, b0: int, b1: int, b2: int, r: List[int]) -> bool:
    """
    pre: a0 != a1 and b0 != b1 and b0 != b2 and b1 != b2
    pre: len(r) == 6
    post: _
    """
    calls = []
    def fn(a, b):
        calls.append((a, b))
        return r[len(calls) - 1]
    out = combo_runner(fn, {'a': [a0, a1], 'b': [b0, b1, b2]}, verbosity=0)
    A = [a0, a1]; B = [b0, b1, b2]
    ok = len(calls) == 6
    for i in range(2):
        for j in range(3):
            k = calls.index((A[i], B[j]))
            ok = ok and out[i][j] == r[k]
    return ok
