from xyzpy.manage import auto_add_extension, _engine_extensions

def h_ext(name: str, eng: int) -> bool:
    """
    pre: 0 <= eng < 4
    pre: len(name) <= 6
    post: _
    """
    engine = ['h5netcdf', 'netcdf4', 'joblib', 'zarr'][eng]
    out = auto_add_extension(name, engine)
    ext = _engine_extensions[engine]
    has = any(name.endswith(e) for e in _engine_extensions.values())
    # idempotent + ends with some known extension + equals name if name already had one
    return auto_add_extension(out, engine) == out and (out == name if has else out == name + ext)
