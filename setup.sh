#!/bin/bash
# Build the overlay virtualenv used by every check: /venv's python + site-packages
# (xyzpy's own dependencies), /repo on the path (xyzpy itself, always the live
# working tree), and crosshair-tool/z3/cvc5 from the offline wheelhouse.
set -euo pipefail
cd "$(dirname "$0")"
V=/verif/.venv
if [ -x "$V/bin/python" ] && "$V/bin/python" -c "import crosshair, z3, xyzpy" 2>/dev/null; then
    exit 0
fi
rm -rf "$V"
/venv/bin/python -m venv "$V"
SP=$("$V/bin/python" -c "import sysconfig; print(sysconfig.get_paths()['purelib'])")
cat > "$SP/_verif_overlay.pth" <<PTH
import site; site.addsitedir('/venv/lib/python3.12/site-packages')
/repo
PTH
PIP_NO_INDEX=1 "$V/bin/pip" install -q --no-index --find-links /opt/veriftools/wheels crosshair-tool cvc5 >/dev/null
"$V/bin/python" -c "import crosshair, z3, xyzpy; print('verif venv ready: crosshair', crosshair.__version__, 'z3', z3.get_version_string())"
