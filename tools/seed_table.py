#!/usr/bin/env python3
"""Merge the baseline evaluations into /verif/seeded/*/meta.json and print the DESIGN 10.6 table
(caught now = the last tools/seed_rerun.py run recorded under final_run, else the evaluation at the time)."""
import glob
import json
import os
import re

rows = []
for d in sorted(glob.glob("/verif/seeded/*")):
    mp = os.path.join(d, "meta.json")
    if not os.path.exists(mp):
        continue
    m = json.load(open(mp))
    tag = os.path.basename(d)
    for base in ("/tmp/seeded-old", "/tmp/seeded-old2", "/tmp/seeded-old3"):
        bp = os.path.join(base, tag, "meta.json")
        if os.path.exists(bp):
            b = json.load(open(bp))
            m["baseline"] = {"checks_run": b["checks_run"], "detected_by": b["detected_by"],
                             "note": "same change run against the checks as they were BEFORE the harnesses were "
                                     "strengthened in response to this round of seeded changes"}
    notes = ""
    np_ = os.path.join(d, "notes.md")
    if os.path.exists(np_):
        notes = open(np_).read()
    if "needs" not in m:
        m["needs"] = "see notes.md"
    m["ran"] = ("tools/seed_eval.py: existing tests with the change (tests/test_gen tests/test_manage.py "
                "tests/test_utils.py, bokeh test deselected), demo.py with and without the change, then "
                "`PYTHONPATH=<worktree with patch applied> ./check <id> --tier quick`")
    json.dump(m, open(mp, "w"), indent=1)
    what = ""
    for line in notes.splitlines():
        line = line.strip(" #*-")
        if len(line) > 25:
            what = line
            break
    before = ",".join(m.get("baseline", {}).get("detected_by", [])) if "baseline" in m else "n/a"
    fin = m.get("final_run")
    after = ",".join((fin or m).get("detected_by", []))
    flags = []
    for c, r in ((fin["checks"] if fin else m["checks_run"]).items()):
        if r["exit"] == 2:
            flags.append("exit 2")
        if r["exit"] == 0 and any(l.startswith("INCONCLUSIVE") for l in r["lines"]):
            flags.append("inconclusive")
    rows.append((tag, what[:110], before or "-", after or "-", ";".join(flags)))

print("| seed | change (from its notes) | caught before strengthening | caught now | remarks |")
print("|---|---|---|---|---|")
for r in rows:
    print("| %s | %s | %s | %s | %s |" % r)
