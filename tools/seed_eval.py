#!/usr/bin/env python3
"""Confirm a seeded change and run checks against it.

usage: tools/seed_eval.py <prop> <letter> <worktree> [check ids ...]
 1. in the worktree: apply patch, run the existing tests, run the demo (must fail), revert, run the demo (must pass)
 2. apply the patch to /repo, run ./check for the given ids (default: the property), revert /repo
 3. store /verif/seeded/<prop>-<letter>/{patch.diff, demo.py, notes.md, meta.json}
"""
import json
import os
import shutil
import subprocess
import sys
import time

prop, letter, wt = sys.argv[1:4]
checks = sys.argv[4:] or [prop]
src = os.path.join(wt, "_seed", letter)
patch = os.path.join(src, "patch.diff")
PY = "/venv/bin/python"
EV = "/tmp/se-ev-%s-%s" % (prop, letter)


def sh(cmd, cwd=None, timeout=3600):
    p = subprocess.run(cmd, shell=True, cwd=cwd, stdout=subprocess.PIPE, stderr=subprocess.STDOUT, timeout=timeout)
    return p.returncode, p.stdout.decode(errors="replace")


meta = {"property": prop, "variant": letter, "checks_run": {}, "confirmed": {}}
sh("git checkout -- xyzpy", wt)
rc, out = sh("git apply %s" % patch, wt)
assert rc == 0, out
rc, out = sh(PY + " -m pytest -q -p no:cacheprovider tests/test_gen tests/test_manage.py tests/test_utils.py "
             "--deselect tests/test_utils.py::TestBenchmarker::test_basic 2>&1 | tail -2", wt)
meta["confirmed"]["existing_tests_with_change"] = out.strip().splitlines()[-1]
tests_ok = " failed" not in out and "error" not in out.lower()
if not tests_ok:
    # tests/test_utils.py::TestFromRepeats::test_basic draws random numbers and fails now and then: run once more
    rc, out = sh(PY + " -m pytest -q -p no:cacheprovider tests/test_gen tests/test_manage.py tests/test_utils.py "
                 "--deselect tests/test_utils.py::TestBenchmarker::test_basic 2>&1 | tail -2", wt)
    meta["confirmed"]["existing_tests_with_change_second_run"] = out.strip().splitlines()[-1]
    tests_ok = " failed" not in out and "error" not in out.lower()
rc1, out1 = sh("PYTHONPATH=. XYZPY_ROOT=%s %s -W ignore _seed/%s/demo.py" % (wt, PY, letter), wt)
sh("git checkout -- xyzpy", wt)
rc0, out0 = sh("PYTHONPATH=. XYZPY_ROOT=%s %s -W ignore _seed/%s/demo.py" % (wt, PY, letter), wt)
meta["confirmed"]["demo_with_change_rc"] = rc1
meta["confirmed"]["demo_without_change_rc"] = rc0
meta["confirmed"]["demo_with_change_tail"] = out1.strip().splitlines()[-1:] 
ok = tests_ok and rc1 != 0 and rc0 == 0
meta["confirmed"]["ok"] = ok
print("confirmed:", ok, meta["confirmed"])
if not ok:
    sys.exit(3)

# run the checks against the changed library: the worktree (with the patch applied) is put in front of /repo on
# the import path, which is equivalent to `git -C /repo apply` + run + `git -C /repo checkout -- .` but lets
# several seeded changes be evaluated at the same time without touching /repo
rc, out = sh("git apply %s" % patch, wt)
assert rc == 0, out
try:
    rc, out = sh("PYTHONPATH=%s /verif/.venv/bin/python -c 'import xyzpy; print(xyzpy.__file__)'" % wt)
    assert out.strip().splitlines()[-1].startswith(wt), out
    for c in checks:
        t0 = time.time()
        rc, out = sh("PYTHONPATH=%s VF_JOBS=%s VF_EVIDENCE_DIR=%s ./check %s --tier quick"
                     % (wt, os.environ.get("VF_JOBS", "8"), EV, c), "/verif")
        lines = [l.replace(EV, "<evidence>") for l in out.splitlines()
                 if l.startswith(("VIOLATION", "HARNESS-ERROR", "INCONCLUSIVE", "KNOWN-FINDING", "ENCODING-ERROR"))]
        meta["checks_run"][c] = {"exit": rc, "seconds": round(time.time() - t0), "lines": [l[:300] for l in lines[:6]]}
        print(c, "exit", rc, lines[:3])
        open("/tmp/seedlog-%s-%s-%s.log" % (prop, letter, c), "w").write(out)
finally:
    sh("git checkout -- xyzpy", wt)
    shutil.rmtree(EV, ignore_errors=True)

dst = "/verif/seeded/%s-%s" % (prop, letter)
os.makedirs(dst, exist_ok=True)
for f in ("patch.diff", "demo.py", "notes.md"):
    if os.path.exists(os.path.join(src, f)):
        shutil.copy(os.path.join(src, f), os.path.join(dst, f))
meta["detected_by"] = [c for c, r in meta["checks_run"].items() if r["exit"] == 1]
json.dump(meta, open(os.path.join(dst, "meta.json"), "w"), indent=1)
print("detected_by:", meta["detected_by"])
