#!/usr/bin/env python3
"""Re-run the current checks against stored seeded changes.

usage: tools/seed_rerun.py [--par N] [--jobs J] [seed dirs ...]        (default: every /verif/seeded/*)

For each seed: scratch worktree of /repo under /tmp, `git apply patch.diff`, existing tests + demo (must still
fail), `PYTHONPATH=<worktree> ./check <id> --tier quick` for the seed's property (and every check that detected it
before) with the evidence redirected to a scratch directory, result stored in meta.json under "final_run", worktree
removed.  Equivalent to `git -C /repo apply` / run / `git -C /repo checkout -- .`, without touching /repo.
"""
import concurrent.futures as cf
import glob
import json
import os
import shutil
import subprocess
import sys
import time

args = sys.argv[1:]
par, jobs = 3, 5
while args and args[0].startswith("--"):
    if args[0] == "--par":
        par = int(args[1])
    elif args[0] == "--jobs":
        jobs = int(args[1])
    args = args[2:]
seeds = [os.path.abspath(a) for a in args] or sorted(glob.glob("/verif/seeded/C*"))
PY = "/venv/bin/python"


def sh(cmd, cwd=None, timeout=7200, env=None):
    p = subprocess.run(cmd, shell=True, cwd=cwd, stdout=subprocess.PIPE, stderr=subprocess.STDOUT, timeout=timeout,
                       env={**os.environ, **(env or {})})
    return p.returncode, p.stdout.decode(errors="replace")


def one(d):
    name = os.path.basename(d)
    meta = json.load(open(os.path.join(d, "meta.json")))
    wt = "/tmp/sr-%s" % name
    ev = "/tmp/sr-ev-%s" % name
    sh("git -C /repo worktree remove --force %s" % wt)
    rc, out = sh("git -C /repo worktree add --detach %s HEAD" % wt)
    assert rc == 0, out
    res = {"when": time.strftime("%Y-%m-%dT%H:%M:%SZ", time.gmtime()), "checks": {}}
    try:
        rc, out = sh("git apply %s" % os.path.join(d, "patch.diff"), wt)
        assert rc == 0, out
        rc1, out1 = sh("PYTHONPATH=. XYZPY_ROOT=%s %s -W ignore %s" % (wt, PY, os.path.join(d, "demo.py")), wt)
        res["demo_with_change_rc"] = rc1
        ids = sorted(set([meta["property"]] + list(meta.get("detected_by", [])) + list(meta.get("also_check", []))))
        for c in ids:
            t0 = time.time()
            rc, out = sh("./check %s --tier quick" % c, "/verif",
                         env={"PYTHONPATH": wt, "VF_JOBS": str(jobs), "VF_EVIDENCE_DIR": ev})
            lines = [l for l in out.splitlines()
                     if l.startswith(("VIOLATION", "HARNESS-ERROR", "INCONCLUSIVE", "KNOWN-FINDING", "ENCODING-ERROR"))]
            res["checks"][c] = {"exit": rc, "seconds": round(time.time() - t0),
                                "lines": [l[:300].replace(ev, "<evidence>") for l in lines[:6]]}
            open("/tmp/sr-%s-%s.log" % (name, c), "w").write(out)
        res["detected_by"] = [c for c, r in res["checks"].items() if r["exit"] == 1]
    finally:
        sh("git -C /repo worktree remove --force %s" % wt)
        shutil.rmtree(ev, ignore_errors=True)
    meta["final_run"] = res
    json.dump(meta, open(os.path.join(d, "meta.json"), "w"), indent=1)
    return name, res.get("detected_by"), {c: r["exit"] for c, r in res["checks"].items()}


with cf.ThreadPoolExecutor(par) as ex:
    for name, det, rcs in ex.map(one, seeds):
        print(name, "detected_by", det, rcs, flush=True)
