"""Performance shims for CrossHair (semantics-preserving).

CrossHair routes *every* str.format call through a pure-Python
string.Formatter so that symbolic strings can be formatted; xyzpy formats
many concrete file names.  When the template and all arguments are concrete
built-in values the native str.format gives the same answer, so we take it;
anything else falls through to CrossHair's implementation.
"""
_CONCRETE = (str, int, bool, float, type(None))


def install():
    try:
        from crosshair.core import register_patch
        from crosshair.libimpl import builtinslib
        from crosshair.tracers import NoTracing
    except Exception:
        return False

    slow_format = builtinslib._str_format

    def fast_str_format(self, /, *a, **kw):
        with NoTracing():
            concrete = type(self) is str and all(type(x) in _CONCRETE for x in a) and all(
                type(x) in _CONCRETE for x in kw.values())
            if concrete:
                return str.format(self, *a, **kw)
        return slow_format(self, *a, **kw)

    try:
        from crosshair import core

        core._PATCH_REGISTRATIONS.pop(str.format, None)
    except Exception:
        pass
    try:
        register_patch(str.format, fast_str_format)
    except Exception:
        return False
    return True
