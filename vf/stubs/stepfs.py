"""StepFS: FakeFS in which every mutation is an atomic, numbered step.

Steps:  open(p, 'wb') = create-or-truncate; pickle.dump = K chunk writes (a file whose K chunks
are not all written is *incomplete*: loading it raises EOFError); os.replace (atomic);
os.remove; shutil.rmtree = one step per entry; high-level saves that go through FakeFS.put
(MiniXR.to_netcdf, joblib.dump, DataFrame.to_pickle) = truncate + K chunks as well.

Crash budget: with `budget = c` the (c+1)-th step raises Crash (a BaseException: the process
is gone; nothing in xyzpy may catch it), leaving the state after exactly c steps.

Timeline mode (concurrent growers observed by a reader): each file has the list of its
successive states; the reader sees, per file, a monotone prefix position that is advanced by a
solver-chosen amount immediately before every observation of that file (lazily and saturating:
nothing is consumed once a file's writer has finished).  Clock.sleep forces progress.
"""
import posixpath

from ..common import HarnessError
from . import fakefs
from .fakefs import FakeFS, native, _is_tracing, _NoTracing


class Crash(BaseException):
    """the process was killed at this step"""


class FState:
    """content of a file: obj with `written` of `total` chunks present"""

    def __init__(self, obj=None, written=0, total=0, holes=False):
        self.obj, self.written, self.total, self.holes = obj, written, total, holes

    def complete(self):
        return self.total > 0 and self.written == self.total and not self.holes

    def __repr__(self):
        return "<FState %d/%d%s>" % (self.written, self.total, " holes" if self.holes else "")


class StepFS(FakeFS):
    K = 2

    def __init__(self):
        super().__init__()
        self.budget = None          # crash budget
        self.steps = 0              # steps executed so far
        self.crashed = False
        self.moved = {}             # old name -> new name of files renamed while possibly still open
        self.dead = False
        self.rmtree_reverse = False
        self.buffered = False       # True: pickle.dump only fills the handle's buffer, the chunks reach the file
        #                             when the handle is closed (small files); False: during dump (large files)
        # timeline mode
        self.tl = None              # path -> list of successive FState|None
        self.pos = None
        self.deltas = None
        self.force_progress = False
        self.recording = None       # list collecting (path, FState|None) while a writer is recorded
        self.oprec = None           # list collecting the writer's operations (for merged re-execution)

    # ------------------------------------------------------------ step accounting
    def _step(self, path=None, st=None):
        if self.tl is not None:
            self.finish_timeline()
        if self.dead:
            raise Crash()          # the process is gone: no finally / __exit__ block can write any more
        if self.budget is not None:
            if self.budget <= 0:
                self.crashed = True
                self.dead = True
                raise Crash()
            self.budget -= 1
        self.steps += 1
        if self.recording is not None and path is not None:
            self.recording.append((path, st))

    def _set(self, p, st):
        self._step(p, st)
        if st is None:
            del self.files[p]
        else:
            self.files[p] = st

    # ------------------------------------------------------------ mutations (each an atomic step)
    def _put(self, p, obj):
        p = self._norm(p)
        if posixpath.dirname(p) not in self.dirs:
            raise FileNotFoundError(p)
        if p in self.dirs:
            raise IsADirectoryError(p)
        self._set(p, FState(None, 0, 0))                  # create / truncate
        for k in range(1, self.K + 1):
            self._set(p, FState(obj, k, self.K))          # chunk k

    def create(self, p):
        p = self._norm(p)
        if posixpath.dirname(p) not in self.dirs:
            raise FileNotFoundError(p)
        if self.oprec is not None:
            self.oprec.append(("create", p))
        self._set(p, FState(None, 0, 0))

    def write_chunks(self, p, obj):
        p = self._norm(p)
        for k in range(1, self.K + 1):
            if self.oprec is not None:
                self.oprec.append(("chunk", p, obj, k))
            if p not in self.files:
                # the name was moved / removed while the handle was open: the bytes go to the open file,
                # wherever its name is now; a rename target keeps receiving them
                tgt = self.moved.get(p)
                if tgt is None or tgt not in self.files:
                    self._step()
                    continue
                self._set(tgt, FState(obj, k, self.K))
                continue
            self._set(p, FState(obj, k, self.K))

    def remove(self, p):
        self._pre_observe([p])
        return self._remove(p)

    @native
    def _remove(self, p):
        p = self._norm(p)
        if p in self.dirs:
            raise IsADirectoryError(p)
        if p not in self.files:
            raise FileNotFoundError(p)
        self._set(p, None)

    @native
    def replace(self, a, b):
        a, b = self._norm(a), self._norm(b)
        if a not in self.files:
            raise FileNotFoundError(a)
        if b in self.dirs:
            raise IsADirectoryError(b)
        st = self.files[a]
        if self.oprec is not None:
            self.oprec.append(("replace", a, b))
        self._step(None, None)
        del self.files[a]
        self.files[b] = st
        self.moved[a] = b
        if self.recording is not None:
            self.recording.append((a, None))
            self.recording.append((b, st))

    @native
    def rmtree(self, p):
        p = self._norm(p)
        if self.tl is not None:
            self.finish_timeline()
        if p not in self.dirs:
            if p in self.files:
                raise NotADirectoryError(p)
            raise FileNotFoundError(p)
        pre = p + "/"
        entries = sorted((k for k in self.files if k.startswith(pre)), reverse=self.rmtree_reverse)
        for k in entries:
            self._set(k, None)
        self._step()
        for d in sorted((d for d in self.dirs if d == p or d.startswith(pre)), reverse=True):
            self.dirs.discard(d)

    @native
    def makedirs(self, p, exist_ok=False):
        p = self._norm(p)
        if p in self.files:
            raise FileExistsError(p)
        if p in self.dirs:
            if not exist_ok:
                raise FileExistsError(p)
            return
        self._step()
        parts = p.split("/")
        for i in range(2, len(parts) + 1):
            self.dirs.add("/".join(parts[:i]))

    # ------------------------------------------------------------ observations
    def _pre_observe(self, paths):
        """advance the timeline (under tracing: forks on solver-chosen advances)"""
        if self.tl is None:
            return
        paths = [self._norm(fakefs._concrete_path(q) if _is_tracing() else q) for q in paths]
        self._observe(paths)

    def _get_state(self, p):
        self._pre_observe([p])
        return self._get_state_n(p)

    @native
    def _get_state_n(self, p):
        p = self._norm(p)
        if p in self.dirs:
            raise IsADirectoryError(p)
        if p not in self.files:
            raise FileNotFoundError(p)
        return self.files[p]

    def get(self, p):
        if _is_tracing():
            p = fakefs._concrete_path(p)
        st = self._get_state(p)
        if not st.complete():
            raise EOFError("Ran out of input (file %s is incomplete)" % p)
        return st.obj

    def exists(self, p):
        self._pre_observe([p])
        return FakeFS.exists(self, p)

    def isfile(self, p):
        self._pre_observe([p])
        return FakeFS.isfile(self, p)

    def access_w(self, p):
        self._pre_observe([p])
        return FakeFS.access_w(self, p)

    def glob(self, pat):
        if self.tl is not None:
            import fnmatch

            d, base = posixpath.dirname(pat), posixpath.basename(pat)
            self._observe([k for k in self.tl if posixpath.dirname(k) == d and fnmatch.fnmatchcase(posixpath.basename(k), base)])
        return FakeFS.glob(self, pat)

    def listdir(self, p):
        if self.tl is not None:
            self._observe([k for k in self.tl if posixpath.dirname(k) == p])
        return FakeFS.listdir(self, p)

    def tree(self, p):
        return {k: (v.obj, v.written, v.total) for k, v in FakeFS.tree(self, p).items()}

    # ------------------------------------------------------------ timelines
    def start_recording(self):
        self.recording = []

    def stop_recording(self):
        log, self.recording = self.recording, None
        return log

    def start_op_recording(self):
        self.oprec = []

    def stop_op_recording(self):
        ops, self.oprec = self.oprec, None
        return ops

    def merged_logs(self, base_files, oplists, order):
        """Re-execute several writers' operation lists in the global order `order` (a list of writer
        indices) with POSIX open-file semantics - O_TRUNC keeps the inode, every writer keeps writing
        at its own offsets into the file it opened even after that file was renamed - and return one
        log [(path, FState|None), ...] of the successive visible states."""
        K = self.K
        names = {}                 # path -> file object {obj, slots}
        for pth, st in base_files.items():
            names[pth] = {"obj": st.obj, "slots": [i < st.written for i in range(max(st.total, 1))] if st.total
                          else [], "total": st.total}
        handles = {}
        dead = set()
        pos = [0] * len(oplists)
        log = []

        def state(fo):
            if fo["total"] == 0:
                return FState(None, 0, 0)
            slots = fo["slots"]
            n = sum(1 for x in slots if x)
            holes = any((not slots[i]) and any(slots[i + 1:]) for i in range(len(slots)))
            return FState(fo["obj"], n, fo["total"], holes)

        def path_of(fo):
            for pth, f in names.items():
                if f is fo:
                    return pth
            return None

        for w in order:
            if w in dead or pos[w] >= len(oplists[w]):
                continue
            op = oplists[w][pos[w]]
            pos[w] += 1
            if op[0] == "create":
                pth = op[1]
                fo = names.get(pth)
                if fo is None:
                    fo = {"obj": None, "slots": [], "total": 0}
                    names[pth] = fo
                else:
                    fo["obj"], fo["slots"], fo["total"] = None, [], 0      # truncated in place
                handles[w] = fo
                log.append((pth, state(fo)))
            elif op[0] == "chunk":
                fo = handles.get(w)
                if fo is None:
                    dead.add(w)
                    continue
                if fo["total"] == 0:
                    fo["total"] = K
                    fo["slots"] = [False] * K
                fo["obj"] = op[2]
                fo["slots"][op[3] - 1] = True
                pth = path_of(fo)
                if pth is not None:
                    log.append((pth, state(fo)))
            elif op[0] == "replace":
                a, b = op[1], op[2]
                if a not in names:
                    dead.add(w)              # FileNotFoundError in that grower
                    continue
                fo = names.pop(a)
                names[b] = fo
                log.append((a, None))
                log.append((b, state(fo)))
        return log

    def begin_timeline(self, base_files, logs, deltas):
        """base_files: state before any writer; logs: list of per-writer [(path, FState|None)...]
        (writers of distinct files); deltas: pool of symbolic ints"""
        self.files = dict(base_files)
        self.tl, self.pos = {}, {}
        for log in logs:
            for path, st in log:
                self.tl.setdefault(path, []).append(st)
        for path in self.tl:
            self.pos[path] = 0
        self.deltas = list(deltas)

    def finish_timeline(self):
        """all writers run to completion (the reader is about to mutate, or the run is over)"""
        tl, self.tl = self.tl, None
        if tl is None:
            return
        for path, states in tl.items():
            if states and self.pos[path] < len(states):
                st = states[-1]
                if st is None:
                    self.files.pop(path, None)
                else:
                    self.files[path] = st
        self.pos = None

    def unfinished(self):
        return self.tl is not None and any(self.pos[p] < len(s) for p, s in self.tl.items())

    def _observe(self, paths):
        if self.tl is None:
            return
        force = self.force_progress
        for p in paths:
            states = self.tl.get(p)
            if not states:
                continue
            rem = len(states) - self.pos[p]
            if rem <= 0:
                continue
            lo = 1 if force else 0
            d = rem
            if self.deltas:
                raw = self.deltas.pop(0)
                if _is_tracing():
                    # explicit fork per feasible advance, decided by the solver
                    d = _choose(raw, lo, rem)
                else:
                    d = min(max(int(raw), lo), rem)
            self.pos[p] += d
            if d:
                st = states[self.pos[p] - 1]
                if st is None:
                    self.files.pop(p, None)
                else:
                    self.files[p] = st
        if force and paths:
            self.force_progress = False


def _choose(raw, lo, hi):
    for k in range(lo, hi):
        if raw == k:
            return k
    return hi


# ------------------------------------------------------------------ open / pickle stubs for cropping
class Handle:
    def __init__(self, fs, p, mode):
        self.fs, self.p, self.mode = fs, p, mode
        if "w" in mode:
            fs.create(p)
        else:
            self.st = fs._get_state(p)

    def __enter__(self):
        return self

    def __exit__(self, *a):
        self.close()
        return False

    def close(self):
        """flush what pickle.dump buffered (buffered mode): the chunk steps happen now"""
        pending = getattr(self, "pending", None)
        if pending is not None:
            self.pending = None
            obj = pending[0]
            if _is_tracing():
                with _NoTracing():
                    return self.fs.write_chunks(self.p, obj)
            return self.fs.write_chunks(self.p, obj)


class StepOpen:
    def __init__(self, fs):
        self.fs = fs

    def __call__(self, p, mode="r"):
        if _is_tracing():
            p = fakefs._concrete_path(p)
            with _NoTracing():
                return self._open(p, mode)
        return self._open(p, mode)

    def _open(self, p, mode):
        return Handle(self.fs, p, mode)


class Unpicklable:
    """a result that cannot be pickled: pickle.dump raises after the output file has been opened"""

    def __reduce__(self):
        raise TypeError("cannot pickle 'Unpicklable' object")


def _has_unpicklable(o):
    if isinstance(o, Unpicklable):
        return True
    if isinstance(o, (list, tuple)):
        return any(_has_unpicklable(x) for x in o)
    if isinstance(o, dict):
        return any(_has_unpicklable(x) for x in o.values())
    return False


class StepPickle:
    """pickle module stand-in: dump = K chunk steps, load of an incomplete file raises"""

    PickleError = Exception

    def __init__(self, fs):
        self.fs = fs

    def dump(self, obj, h, *a, **k):
        if _has_unpicklable(obj):
            raise TypeError("cannot pickle 'Unpicklable' object")
        obj = fakefs.snap(obj)
        if self.fs.buffered:
            h.pending = (obj,)
            return None
        if _is_tracing():
            with _NoTracing():
                return self.fs.write_chunks(h.p, obj)
        return self.fs.write_chunks(h.p, obj)

    def load(self, h, *a, **k):
        if not h.st.complete():
            raise EOFError("Ran out of input")
        return fakefs.snap(h.st.obj)


class StepClock:
    """time.sleep for a polling reader: the awaited writer makes progress (fair scheduler)"""

    def __init__(self, fs, limit=50):
        self.fs = fs
        self.polls = 0
        self.limit = limit

    def sleep(self, t):
        self.polls += 1
        if self.polls > self.limit:
            raise HarnessError("reader polled %d times without termination" % self.polls)
        if self.fs.tl is not None and self.fs.unfinished():
            self.fs.force_progress = True
        else:
            from ..env import WaitTimeout

            raise WaitTimeout()          # nothing will ever change any more: a real reaper would hang

    def time(self):
        return float(self.polls)
