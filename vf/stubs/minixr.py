"""MiniXR / MiniNP: a pure-Python model of the part of xarray / numpy that xyzpy calls.

Labelled n-d arrays are dicts `label tuple -> cell` per variable, dense over the product of
the variable's coordinates; a cell is any Python (possibly symbolic) value or NaN.  Only the
calls xyzpy makes are implemented, with xarray's semantics for them (outer-join alignment
with sorted union of unequal indexes, no_conflicts merge, combine_first, sel -> KeyError for
a missing label, ...).  Conformance with the real xarray is checked differentially by
vf/stubs/conformance.py on every run.
"""
import numpy as _REAL_NP          # the real library, whatever sys.modules["numpy"] is swapped to later
import itertools

NAN = float("nan")


def isnan(v):
    return isinstance(v, float) and v != v


def isnull(v):
    if hasattr(v, "_vf_isnull"):
        return v._vf_isnull()          # symbolic cell (see vf/harness/C13.py)
    return v is None or isnan(v)


try:
    from crosshair.tracers import NoTracing as _NoTracing, is_tracing as _is_tracing
except Exception:  # pragma: no cover
    import contextlib

    _NoTracing = contextlib.nullcontext

    def _is_tracing():
        return False


def concrete_bool(v):
    """is v a real Python bool (not a symbolic one)?  (`is` / isinstance would realise or lie)"""
    if _is_tracing():
        with _NoTracing():
            return type(v) is bool
    return type(v) is bool


def _not(v):
    """logical not that keeps a symbolic bool symbolic"""
    if concrete_bool(v):
        return not v
    return v ^ True


def _or(a, b):
    if concrete_bool(a):
        return True if a else b
    if concrete_bool(b):
        return True if b else a
    return a | b


def _cell_eq(v, other):
    if hasattr(v, "_vf_eq"):
        return v._vf_eq(other)
    if isnan(v) or (isinstance(other, float) and other != other):
        return False
    return v == other


def _and(a, b):
    if concrete_bool(a):
        return b if a else False
    if concrete_bool(b):
        return a if b else False
    return a & b



def _either(pos, kw, name):
    """xarray's either_dict_or_kwargs"""
    if pos is None or pos == {}:
        return dict(kw)
    if not isinstance(pos, dict):
        raise ValueError("the first argument to .%s must be a dictionary" % name)
    if kw:
        raise ValueError("cannot specify both keyword and positional arguments to .%s" % name)
    return dict(pos)


def _at(labels, i):
    if isinstance(i, bool) or not isinstance(i, int):
        raise NotImplementedError("MiniXR.isel: scalar integer positions only")
    n = len(labels)
    if not -n <= i < n:
        raise IndexError("index %d is out of bounds for axis with size %d" % (i, n))
    return labels[i]


def _sel_options(method, tolerance):
    # exact label look-up only; `tolerance` without a `method` is ignored by the index look-up for labels that are
    # present, any `method` other than None is outside the model
    if method is not None:
        if not isinstance(method, str):
            raise TypeError("``method`` must be a string")
        raise NotImplementedError("MiniXR.sel: method=%r" % (method,))

class MergeError(ValueError):
    pass


# ------------------------------------------------------------------ numpy side
class NestedArray:
    """result of np.asarray on nested tuples/lists"""

    def __init__(self, data, shape=None):
        self.data = data
        self.shape = shape_of(data) if shape is None else shape

    @property
    def ndim(self):
        return len(self.shape)

    def at(self, idx):
        v = self.data
        for i in idx:
            if isinstance(v, NestedArray):
                v = v.data
            v = v[i]
        if isinstance(v, NestedArray) and v.shape == ():
            v = v.data
        return v


def shape_of(x):
    if isinstance(x, NestedArray):
        return x.shape
    if isinstance(x, (tuple, list)):
        if len(x) == 0:
            return (0,)
        inner = shape_of(x[0])
        for y in x[1:]:
            if shape_of(y) != inner:
                raise ValueError("setting an array element with a sequence. The requested array has an "
                                 "inhomogeneous shape")
        return (len(x),) + inner
    return ()


class _Random:
    def __init__(self, np):
        self.np = np

    def choice(self, v):
        v = list(v)
        src = self.np.choice_source
        if src is None:
            raise RuntimeError("MiniNP.random.choice without a choice source")
        k = src.pop(0)
        for i in range(len(v) - 1):
            if k == i:
                return v[i]
        return v[-1]


class MiniNP:
    nan = NAN
    inf = float("inf")

    def __init__(self):
        self.choice_source = None
        self.random = _Random(self)

    @staticmethod
    def asarray(x):
        if isinstance(x, NestedArray):
            return x
        return NestedArray(x)

    array = asarray

    @staticmethod
    def broadcast_to(v, shape):
        def build(s):
            if not s:
                return v
            return tuple(build(s[1:]) for _ in range(s[0]))

        return NestedArray(build(tuple(shape)), tuple(shape))

    @staticmethod
    def isfinite(x):
        def fin(v):
            if hasattr(v, "_vf_isfinite"):
                return v._vf_isfinite()
            if v is None:
                raise TypeError("ufunc 'isfinite' not supported for the input types")
            if isinstance(v, float):
                return v == v and v not in (float("inf"), float("-inf"))
            return True

        if isinstance(x, (Dataset, DataArray)):
            return x._map(fin)
        return fin(x)

    def __getattr__(self, name):
        # dtype classes and predicates are numpy's own (they only ever see concrete dtype objects here)
        if name in ("issubdtype", "integer", "floating", "bool_", "number", "complexfloating", "inexact",
                    "dtype", "float64", "float32", "int64", "str_", "object_", "signedinteger"):
            return getattr(_REAL_NP, name)
        raise AttributeError("'MiniNP' object has no attribute %r" % name)

    @staticmethod
    def unique(x):
        """sorted unique values of a concrete sequence: numpy's own (its coercions are the point)"""
        return _REAL_NP.unique(list(x))

    @staticmethod
    def iscomplexobj(x):
        def cx(v):
            if isinstance(v, (list, tuple)):
                return any(cx(w) for w in v)
            return isinstance(v, complex)

        return cx(x)


# ------------------------------------------------------------------ xarray side
def _labels_union(a, b):
    if list(a) == list(b):
        return list(a)
    out = list(a)
    for x in b:
        if not _contains(out, x):
            out.append(x)
    try:
        return sorted(out)
    except TypeError:
        return out


def _contains(seq, x):
    for y in seq:
        if y == x:
            return True
    return False


def _same_value(a, b):
    if isnull(a) or isnull(b):
        return isnull(a) and isnull(b)
    return a == b


class DataArray:
    def __init__(self, dims, coords, cells, name=None, attrs=None):
        self.dims = tuple(dims)
        self.coords_ = {d: list(coords[d]) for d in self.dims}
        self.cells = cells            # label tuple -> value (dense)
        self.name = name
        self.attrs = dict(attrs or {})
        self.nocoord = set()          # dimensions without an explicit coordinate

    # -- construction helpers
    @classmethod
    def from_nested(cls, dims, coords, arr, name=None):
        dims = tuple(dims)
        arr = arr if isinstance(arr, NestedArray) else NestedArray(arr)
        want = tuple(len(coords[d]) for d in dims)
        if arr.shape != want:
            raise ValueError("conflicting sizes for dimension(s) of %r: data shape %r vs coordinate lengths %r"
                             % (name, arr.shape, want))
        cells = {}
        for idx in itertools.product(*(range(n) for n in want)):
            cells[tuple(coords[d][i] for d, i in zip(dims, idx))] = arr.at(idx)
        return cls(dims, coords, cells, name)

    @property
    def shape(self):
        return tuple(len(self.coords_[d]) for d in self.dims)

    @property
    def coords(self):
        return _DACoords(self)

    def _relabel(self, d, new):
        old = self.coords_[d]
        if len(new) != len(old):
            raise ValueError("conflicting sizes for dimension %r: length %d vs %d" % (d, len(new), len(old)))
        i = self.dims.index(d)
        m = list(zip(old, new))

        def tr(lab):
            for o, n in m:
                if o == lab:
                    return n
            raise KeyError(lab)

        self.cells = {k[:i] + (tr(k[i]),) + k[i + 1:]: v for k, v in self.cells.items()}
        self.coords_[d] = list(new)
        self.nocoord.discard(d)

    def __getitem__(self, k):
        if k in self.coords_:
            if k in self.nocoord:
                raise KeyError(k)
            return _Coord(k, self.coords_[k])
        raise KeyError(k)

    def __setitem__(self, k, v):
        if isinstance(v, _Coord):
            v = v.values
        if k in self.dims:
            self._relabel(k, list(v.data) if isinstance(v, NestedArray) else list(v))
        else:
            raise ValueError("assigning a non-dimension coordinate to a DataArray is not modelled")

    @property
    def values(self):
        def build(prefix, ds):
            if not ds:
                return self.cells[prefix]
            return [build(prefix + (l,), ds[1:]) for l in self.coords_[ds[0]]]

        return build((), self.dims)

    data = values

    def item(self):
        if self.dims:
            raise ValueError("can only convert an array of size 1 to a Python scalar")
        return self.cells[()]

    def _map(self, f):
        return DataArray(self.dims, self.coords_, {k: f(v) for k, v in self.cells.items()}, self.name)

    def isnull(self):
        return self._map(isnull)

    def notnull(self):
        return self._map(lambda v: _not(isnull(v)))

    def __invert__(self):
        return self._map(_not)

    def all(self):
        out = True
        for v in self.cells.values():
            out = _and(out, v)
        return DataArray((), {}, {(): out}, self.name)

    def copy(self, deep=False):
        # xarray's default is a SHALLOW copy: the data buffer is shared
        cells = dict(self.cells) if deep else self.cells
        out = DataArray(self.dims, self.coords_, cells, self.name, self.attrs)
        out.nocoord = set(self.nocoord)
        return out

    def set_cell(self, key, value):
        """in-place edit of the data buffer (what `da.values[...] = v` does)"""
        self.cells[key] = value

    def to_dataset(self, name=None):
        name = name or self.name
        if name is None:
            raise ValueError("unable to convert unnamed DataArray to a Dataset without providing an explicit name")
        ds = Dataset()
        for d in self.dims:
            ds._coords[d] = list(self.coords_[d])
            if d in self.nocoord:
                ds._nocoord.add(d)
        ds._vars[name] = self.copy(deep=True)
        ds._vars[name].name = name
        return ds

    @property
    def dtype(self):
        return _dtype_of(self.cells.values())

    def isel(self, indexers=None, drop=False, missing_dims="raise", **kw):
        ind = _either(indexers, kw, "isel")
        lab = {}
        for d, i in ind.items():
            if d not in self.dims:
                raise ValueError("Dimensions {%r} do not exist. Expected one or more of %r" % (d, self.dims))
            lab[d] = _at(self.coords_[d], i)
        return self.sel(lab)

    def sel(self, indexers=None, method=None, tolerance=None, drop=False, **kw):
        ind = _either(indexers, kw, "sel")
        _sel_options(method, tolerance)
        for d in ind:
            if d not in self.dims:
                raise KeyError("%r is not a valid dimension or coordinate" % (d,))
        fixed = {}
        for d, lab in ind.items():
            if not _contains(self.coords_[d], lab):
                raise KeyError("not all values found in index %r" % (d,))
            fixed[d] = lab
        rest = tuple(d for d in self.dims if d not in fixed)
        cells = {}
        for k, v in self.cells.items():
            if all(k[self.dims.index(d)] == lab for d, lab in fixed.items()):
                cells[tuple(k[self.dims.index(d)] for d in rest)] = v
        return DataArray(rest, {d: self.coords_[d] for d in rest}, cells, self.name)

    def reindexed(self, dims, coords, fill=NAN):
        """same data on (a superset of) coordinates, broadcast over nothing: dims must equal self.dims"""
        cells = {}
        for key in itertools.product(*(coords[d] for d in self.dims)):
            cells[key] = self.cells.get(key, fill) if self._has(key) else fill
        return DataArray(self.dims, {d: coords[d] for d in self.dims}, cells, self.name, self.attrs)

    def _has(self, key):
        try:
            return key in self.cells
        except TypeError:
            return False

    def transpose(self, *dims):
        dims = tuple(dims) if dims else tuple(reversed(self.dims))
        if sorted(dims) != sorted(self.dims):
            raise ValueError("%r must be a permuted list of %r" % (dims, self.dims))
        idx = [self.dims.index(d) for d in dims]
        cells = {tuple(k[i] for i in idx): v for k, v in self.cells.items()}
        return DataArray(dims, self.coords_, cells, self.name, self.attrs)

    def _zip(self, other, f):
        if isinstance(other, DataArray):
            if other.dims != self.dims:
                raise ValueError("elementwise operation on differently shaped arrays is not modelled")
            return DataArray(self.dims, self.coords_, {k: f(v, other.cells[k]) for k, v in self.cells.items()}, self.name)
        return self._map(lambda v: f(v, other))

    def __eq__(self, other):
        return self._zip(other, _cell_eq)

    __hash__ = object.__hash__

    def __or__(self, other):
        return self._zip(other, _or)

    def __and__(self, other):
        return self._zip(other, _and)

    def identical(self, other):
        return (isinstance(other, DataArray) and self.dims == other.dims and self.coords_ == other.coords_
                and self.name == other.name and all(_same_value(v, other.cells[k]) for k, v in self.cells.items()))


class _DACoords:
    def __init__(self, da):
        self.da = da

    def __getitem__(self, k):
        return self.da[k]

    def __setitem__(self, k, v):
        self.da[k] = v

    def __contains__(self, k):
        return k in self.da.coords_ and k not in self.da.nocoord

    def __iter__(self):
        return iter([d for d in self.da.coords_ if d not in self.da.nocoord])

    def keys(self):
        return list(iter(self))

    def items(self):
        return [(d, _Coord(d, self.da.coords_[d])) for d in self]


class _Coord:
    def __init__(self, name, labels):
        self.name = name
        self.values = list(labels)
        self.data = self.values
        self.dims = (name,)

    def __iter__(self):
        return iter(self.values)

    def __len__(self):
        return len(self.values)


class _BoolSeq(list):
    def all(self):
        return all(self)

    def any(self):
        return any(self)


class _Index(list):
    """the little of pandas.Index that label bookkeeping needs"""

    def isin(self, other):
        other = list(other)
        return _BoolSeq(_contains(other, x) for x in self)

    @property
    def values(self):
        return list(self)


class _Dims:
    def __init__(self, ds):
        self.ds = ds

    def _d(self):
        return self.ds._dim_sizes()

    def __iter__(self):
        return iter(self._d())

    def __contains__(self, k):
        return k in self._d()

    def __getitem__(self, k):
        return self._d()[k]

    def __len__(self):
        return len(self._d())

    def keys(self):
        return self._d().keys()

    def items(self):
        return self._d().items()

    def __eq__(self, other):
        return dict(self._d()) == dict(other)


class _Coords:
    def __init__(self, ds):
        self.ds = ds

    def __getitem__(self, k):
        if k in self.ds._coords:
            return _Coord(k, self.ds._coords[k])
        if k in self.ds._scalar_coords:
            return self.ds._scalar_coords[k]
        raise KeyError(k)

    def __contains__(self, k):
        return k in self.ds._coords or k in self.ds._scalar_coords

    def __iter__(self):
        return iter(list(self.ds._coords) + list(self.ds._scalar_coords))

    def keys(self):
        return list(iter(self))

    def __setitem__(self, k, v):
        self.ds._set_coord(k, v)


class _VarView:
    def __init__(self, values):
        self.values = values


class Dataset:
    def __init__(self, data_vars=None, coords=None, attrs=None):
        self._coords = {}          # dim -> labels
        self._nocoord = set()      # dims without an explicit coordinate (labels 0..n-1)
        self._scalar_coords = {}
        self._vars = {}            # name -> DataArray
        self.attrs = dict(attrs or {})
        self._closed = False
        for k, v in (coords or {}).items():
            if isinstance(v, (list, tuple, range)) or isinstance(v, NestedArray):
                vals = list(v.data) if isinstance(v, NestedArray) else list(v)
                self._coords[k] = vals
            else:
                self._scalar_coords[k] = v
        for name, spec in (data_vars or {}).items():
            self._add_var(name, spec)

    # -- internals
    def _dim_sizes(self):
        # xarray orders Dataset.dims by first appearance over the data variables, then the coordinates
        # (Dataset.indexes / .coords keep the order of the coordinates)
        out = {}
        for da in self._vars.values():
            for d in da.dims:
                if d not in out and d in self._coords:
                    out[d] = len(self._coords[d])
        for d, labs in self._coords.items():
            if d not in out:
                out[d] = len(labs)
        return out

    def _add_var(self, name, spec):
        if isinstance(spec, DataArray):
            for d in spec.dims:
                self._merge_dim(d, spec.coords_[d])
            da = spec.copy(deep=True)
            da.name = name
            self._vars[name] = da
            return
        if isinstance(spec, tuple) and len(spec) >= 2 and isinstance(spec[0], (str, tuple, list)):
            dims, data = spec[0], spec[1]
            dims = (dims,) if isinstance(dims, str) else tuple(dims)
            arr = data if isinstance(data, NestedArray) else NestedArray(data)
            if len(arr.shape) != len(dims):
                raise ValueError("different number of dimensions on data and dims: %d vs %d for %r"
                                 % (len(arr.shape), len(dims), name))
            for d, n in zip(dims, arr.shape):
                if d not in self._coords:
                    self._coords[d] = list(range(n))
                    self._nocoord.add(d)
                elif len(self._coords[d]) != n:
                    raise ValueError("conflicting sizes for dimension %r: length %d on %r and length %d on "
                                     "coordinate" % (d, n, name, len(self._coords[d])))
            self._vars[name] = DataArray.from_nested(dims, self._coords, arr, name)
            return
        # scalar
        self._vars[name] = DataArray((), {}, {(): spec}, name)

    def _merge_dim(self, d, labels):
        if d not in self._coords:
            self._coords[d] = list(labels)
        elif list(self._coords[d]) != list(labels):
            raise ValueError("conflicting coordinate for dimension %r" % (d,))

    def _set_coord(self, k, v):
        if isinstance(v, _Coord):
            v = v.values
        if isinstance(v, NestedArray):
            v = list(v.data)
        if isinstance(v, (list, tuple, range)):
            v = list(v)
            if k in self._coords:
                if len(v) != len(self._coords[k]):
                    raise ValueError("conflicting sizes for dimension %r: length %d vs %d"
                                     % (k, len(v), len(self._coords[k])))
                old = self._coords[k]
                self._relabel(k, old, v)
                self._nocoord.discard(k)
            else:
                self._coords[k] = v
        else:
            self._scalar_coords[k] = v

    def _relabel(self, d, old, new):
        m = list(zip(old, new))

        def tr(lab):
            for o, n in m:
                if o == lab:
                    return n
            raise KeyError(lab)

        self._coords[d] = list(new)
        for da in self._vars.values():
            if d in da.dims:
                i = da.dims.index(d)
                da.cells = {k[:i] + (tr(k[i]),) + k[i + 1:]: v for k, v in da.cells.items()}
                da.coords_[d] = list(new)

    # -- mapping interface
    @property
    def dims(self):
        return _Dims(self)

    sizes = dims

    @property
    def coords(self):
        return _Coords(self)

    @property
    def data_vars(self):
        return dict(self._vars)

    @property
    def indexes(self):
        return {d: _Index(v) for d, v in self._coords.items() if d not in self._nocoord}

    @property
    def variables(self):
        out = {k: _VarView(list(v)) for k, v in self._coords.items()}
        for k, da in self._vars.items():
            out[k] = _VarView(da.values)
        return out

    def __contains__(self, k):
        return k in self._vars or k in self._coords

    def __iter__(self):
        return iter(self._vars)

    def keys(self):
        return list(self._vars)

    def __getitem__(self, k):
        if isinstance(k, (list, tuple)):
            # ds[[names]]: the sub-Dataset of those variables (all coordinates kept)
            out = self.copy(deep=True)
            for n in k:
                if n not in self._vars:
                    raise KeyError(n)
            out._vars = {n: out._vars[n] for n in k}
            return out
        if k in self._vars:
            da = self._vars[k]
            da.nocoord = {d for d in da.dims if d in self._nocoord}
            return da
        if k in self._coords:
            return _Coord(k, self._coords[k])
        raise KeyError(k)

    def __setitem__(self, k, v):
        if k in self._coords and k not in self._vars and not isinstance(v, (DataArray, tuple)):
            self._set_coord(k, v)
            return
        if isinstance(v, (list, range)) and k not in self._vars:
            # new 1-d coordinate variable along its own dimension
            self._set_coord(k, v)
            return
        self._add_var(k, v)

    # -- xarray API used by xyzpy
    def copy(self, deep=False):
        out = Dataset()
        out._coords = {k: list(v) for k, v in self._coords.items()}
        out._nocoord = set(self._nocoord)
        out._scalar_coords = dict(self._scalar_coords)
        out._vars = {k: v.copy(deep=deep) for k, v in self._vars.items()}
        out.attrs = dict(self.attrs)
        return out

    def close(self):
        self._closed = True

    def load(self):
        return self

    def chunk(self, chunks=None):
        return self

    def _map(self, f):
        out = self.copy(deep=True)
        out._vars = {k: v._map(f) for k, v in self._vars.items()}
        return out

    def isnull(self):
        return self._map(isnull)

    def _zip(self, other, f):
        out = self.copy(deep=True)
        if isinstance(other, Dataset):
            out._vars = {k: v._zip(other._vars[k], f) for k, v in self._vars.items()}
        else:
            out._vars = {k: v._zip(other, f) for k, v in self._vars.items()}
        return out

    def __eq__(self, other):
        if isinstance(other, (Dataset, float, int)):
            return self._zip(other, _cell_eq)
        return NotImplemented

    __hash__ = object.__hash__

    def __or__(self, other):
        return self._zip(other, _or)

    def __and__(self, other):
        return self._zip(other, _and)

    def __invert__(self):
        return self._map(_not)

    def all(self):
        out = Dataset()
        out._vars = {k: v.all() for k, v in self._vars.items()}
        return out

    def to_array(self):
        names = list(self._vars)
        dims = None
        for n in names:
            if dims is None:
                dims = self._vars[n].dims
            elif self._vars[n].dims != dims:
                raise ValueError("to_array on variables with different dimensions is not modelled")
        dims = dims or ()
        cells = {}
        for n in names:
            for k, v in self._vars[n].cells.items():
                cells[(n,) + k] = v
        coords = {"variable": names}
        for d in dims:
            coords[d] = self._coords[d]
        return DataArray(("variable",) + tuple(dims), coords, cells)

    def isel(self, indexers=None, drop=False, missing_dims="raise", **kw):
        ind = _either(indexers, kw, "isel")
        lab = {}
        for d, i in ind.items():
            if d not in self._coords:
                raise ValueError("Dimensions {%r} do not exist. Expected one or more of %r"
                                 % (d, tuple(self._coords)))
            lab[d] = _at(self._coords[d], i)
        return self._take(lab, drop)

    def sel(self, indexers=None, method=None, tolerance=None, drop=False, **kw):
        ind = _either(indexers, kw, "sel")
        _sel_options(method, tolerance)
        for d in ind:
            if d not in self._coords:
                raise KeyError("%r is not a valid dimension or coordinate" % (d,))
        for d, lab in ind.items():
            if d in self._nocoord:
                raise KeyError("no index found for coordinate %r" % (d,))
            if not _contains(self._coords[d], lab):
                raise KeyError("not all values found in index %r" % (d,))
        return self._take(ind, drop)

    def _take(self, ind, drop=False):
        out = Dataset()
        out.attrs = dict(self.attrs)
        out._coords = {d: list(v) for d, v in self._coords.items() if d not in ind}
        out._nocoord = set(self._nocoord)
        out._scalar_coords = dict(self._scalar_coords)
        if not drop:
            out._scalar_coords.update(ind)
        for n, da in self._vars.items():
            sub = {d: l for d, l in ind.items() if d in da.dims}
            out._vars[n] = da.sel(sub) if sub else da.copy(deep=True)
        return out

    def expand_dims(self, name):
        if name in self._coords:
            raise ValueError("Dimension %s already exists." % name)
        out = Dataset()
        out.attrs = dict(self.attrs)
        sc = dict(self._scalar_coords)
        lab = sc.pop(name, 0)
        out._scalar_coords = sc
        out._coords = {name: [lab]}
        if name not in self._scalar_coords:
            out._nocoord.add(name)
        out._coords.update({d: list(v) for d, v in self._coords.items()})
        out._nocoord |= set(self._nocoord)
        for n, da in self._vars.items():
            cells = {(lab,) + k: v for k, v in da.cells.items()}
            coords = {name: [lab]}
            coords.update(da.coords_)
            out._vars[n] = DataArray((name,) + da.dims, coords, cells, n)
        return out

    def drop_sel(self, labels=None, *, errors="raise", **kw):
        ind = dict(labels or {})
        ind.update(kw)
        out = self.copy(deep=True)
        for d, labs in ind.items():
            if d not in out._coords:
                raise ValueError("dimension %r not found" % (d,)) if errors == "raise" else None
            labs = list(labs) if isinstance(labs, (list, tuple)) else [labs]
            for l in labs:
                if not _contains(out._coords[d], l):
                    if errors == "raise":
                        raise KeyError("%r not found in axis" % (l,))
            keep = [l for l in out._coords[d] if not _contains(labs, l)]
            out._coords[d] = keep
            for n, da in out._vars.items():
                if d in da.dims:
                    i = da.dims.index(d)
                    da.cells = {k: v for k, v in da.cells.items() if _contains(keep, k[i])}
                    da.coords_[d] = list(keep)
        return out

    # -- alignment / merging
    def _aligned(self, other):
        coords = {}
        for d in list(self._coords) + [d for d in other._coords if d not in self._coords]:
            if d in self._coords and d in other._coords:
                if (d in self._nocoord) != (d in other._nocoord) or (
                        d in self._nocoord and len(self._coords[d]) != len(other._coords[d])):
                    raise ValueError("cannot align: dimension %r without matching index" % (d,))
                coords[d] = _labels_union(self._coords[d], other._coords[d])
            else:
                coords[d] = list(self._coords.get(d, other._coords.get(d)))
        return coords

    def _combine(self, other, cellfn, compat_check=False):
        coords = self._aligned(other)
        out = Dataset()
        out.attrs = dict(self.attrs)
        out._coords = coords
        out._nocoord = set(self._nocoord) | set(other._nocoord)
        out._scalar_coords = dict(other._scalar_coords)
        out._scalar_coords.update(self._scalar_coords)
        for n in list(self._vars) + [n for n in other._vars if n not in self._vars]:
            a, b = self._vars.get(n), other._vars.get(n)
            if a is not None and b is not None:
                if set(a.dims) != set(b.dims):
                    raise MergeError("conflicting dimensions for variable %r" % (n,))
                dims = a.dims
                cells = {}
                bi = [b.dims.index(d) for d in dims]
                for key in itertools.product(*(coords[d] for d in dims)):
                    va = a.cells[key] if key in a.cells else NAN
                    kb = tuple(key[dims.index(d)] for d in b.dims)
                    vb = b.cells[kb] if kb in b.cells else NAN
                    cells[key] = cellfn(n, key, va, vb)
                out._vars[n] = DataArray(dims, {d: coords[d] for d in dims}, cells, n)
            else:
                src = a if a is not None else b
                out._vars[n] = src.reindexed(src.dims, coords)
        return out

    def combine_first(self, other):
        return self._combine(other, lambda n, k, a, b: b if isnull(a) else a)

    def merge(self, other, compat="no_conflicts", join="outer"):
        if isinstance(other, DataArray):
            other = other.to_dataset()

        mine = set(self._vars)

        def cell(n, k, a, b):
            if compat == "override" and n in mine:
                return a                    # the whole variable is taken from the first object, gaps included
            if isnull(a):
                return b
            if isnull(b):
                return a
            if compat in ("no_conflicts", "equals", "identical", "broadcast_equals"):
                if not (a == b):
                    raise MergeError("conflicting values for variable %r on objects to be combined. You can "
                                     "skip this check by specifying compat='override'." % (n,))
            return a

        return self._combine(other, cell)

    def identical(self, other):
        if not isinstance(other, Dataset):
            return False
        if self._coords != other._coords or self.attrs != other.attrs:
            return False
        if set(self._vars) != set(other._vars):
            return False
        return all(self._vars[n].identical(other._vars[n]) for n in self._vars)

    equals = identical

    # -- I/O: stored into the FakeFS the Env installed
    def to_netcdf(self, file_name, engine=None, **kw):
        fs = _FS[0]
        if fs is None:
            raise RuntimeError("MiniXR: no file system installed")
        fs.put(file_name, ("NETCDF", engine, dict(kw), self.copy(deep=True)))

    def to_zarr(self, file_name, **kw):
        raise NotImplementedError("zarr engine not available")


_FS = [None]


def open_dataset(file_name, engine=None, chunks=None, **kw):
    fs = _FS[0]
    obj = fs.get(file_name)
    if not (isinstance(obj, tuple) and obj and obj[0] == "NETCDF"):
        raise OSError("not a netcdf file: %r" % (file_name,))
    ds = obj[3].copy(deep=True)
    ds._opened_with = dict(engine=engine, chunks=chunks)
    return ds


def concat(objs, dim, join="outer", **kw):
    """concatenate along a NEW dimension; the other dimensions are aligned with `join`
    ('outer': sorted union of unequal indexes, NaN fill; 'override': positions of the first object)"""
    all_da = bool(objs) and all(isinstance(o, DataArray) for o in objs)
    da_name = objs[0].name if all_da else None
    if all_da:
        objs = [o.to_dataset(name="__da__") for o in objs]
    objs = [o.to_dataset() if isinstance(o, DataArray) else o for o in objs]
    if not objs:
        raise ValueError("must supply at least one object to concatenate")
    if kw:
        unknown = [k for k in kw if k not in ("data_vars", "coords", "compat", "fill_value", "combine_attrs")]
        if unknown:
            raise TypeError("concat() got an unexpected keyword argument %r" % unknown[0])
    first = objs[0]
    for o in objs[1:]:
        if list(o._vars) != list(first._vars):
            raise ValueError("variables %r are present in some datasets but not others." % (set(o._vars) ^ set(first._vars),))
        if set(o._coords) != set(first._coords):
            raise ValueError("concat of objects with different dimensions is not modelled")
    if join == "override":
        aligned = []
        for o in objs:
            for d in first._coords:
                if len(o._coords[d]) != len(first._coords[d]):
                    raise ValueError("cannot align objects with join='override' with matching indexes along "
                                     "dimension %r that don't have the same size" % (d,))
            q = o.copy(deep=True)
            for d in first._coords:
                if list(q._coords[d]) != list(first._coords[d]):
                    q._relabel(d, q._coords[d], list(first._coords[d]))
            aligned.append(q)
        objs = aligned
        coords = {d: list(v) for d, v in first._coords.items()}
    elif join in ("outer", "exact", "inner", "left", "right"):
        coords = {d: list(v) for d, v in first._coords.items()}
        for o in objs[1:]:
            for d in coords:
                if list(coords[d]) != list(o._coords[d]):
                    if join == "exact":
                        raise ValueError("cannot align objects with join='exact' where index/labels/sizes are not equal")
                    if join != "outer":
                        raise ValueError("join=%r is not modelled" % (join,))
                    if d in first._nocoord:
                        raise ValueError("cannot reindex or align along dimension %r without an index" % (d,))
                    coords[d] = _labels_union(coords[d], o._coords[d])
    else:
        raise ValueError("invalid value for join: %r" % (join,))
    labels = list(range(len(objs)))
    out = Dataset()
    out.attrs = dict(first.attrs)
    out._coords = {dim: labels}
    out._nocoord.add(dim)
    out._coords.update(coords)
    out._nocoord |= set(first._nocoord)
    for n, da0 in first._vars.items():
        cells = {}
        for i, o in enumerate(objs):
            da = o._vars[n]
            if da.dims != da0.dims:
                raise ValueError("concat: inconsistent dims")
            da = da.reindexed(da.dims, coords)
            for k, v in da.cells.items():
                cells[(i,) + k] = v
        vc = {dim: labels}
        vc.update({d: coords[d] for d in da0.dims})
        out._vars[n] = DataArray((dim,) + da0.dims, vc, cells, n)
    if all_da:
        res = out._vars["__da__"]
        res.name = da_name
        res.nocoord = {d for d in res.dims if d in out._nocoord}
        return res
    return out


def merge(objs, compat="no_conflicts", join="outer"):
    objs = [o.to_dataset() if isinstance(o, DataArray) else o for o in objs]
    out = objs[0].copy(deep=True) if objs else Dataset()
    for o in objs[1:]:
        out = out.merge(o, compat=compat)
    return out


def _dtype_of(values):
    """numpy dtype of an array holding these Python values"""
    numpy = _REAL_NP

    vals = list(values)
    if vals and all(isinstance(v, bool) for v in vals):
        return numpy.dtype(bool)
    if vals and all(isinstance(v, int) and not isinstance(v, bool) for v in vals):
        return numpy.dtype("int64")
    if vals and all(isinstance(v, str) for v in vals):
        return numpy.dtype("<U%d" % max(1, max(len(v) for v in vals)))
    if any(isinstance(v, complex) for v in vals):
        return numpy.dtype("complex128")
    return numpy.dtype("float64")


def _cast_fill(fill, dtype):
    """the value an array of `dtype` holds after being filled with `fill` (numpy casting of a NaN fill)"""
    numpy = _REAL_NP

    if dtype is float:
        return fill
    dt = numpy.dtype(dtype)
    if dt.kind == "f" or dt.kind == "c":
        return fill
    if dt.kind == "b":
        return bool(fill)                 # bool(nan) is True
    if dt.kind == "U":
        return str(fill)[:dt.itemsize // 4]          # fixed-width unicode: truncated to the variable's width
    if dt.kind in "iu":
        raise ValueError("cannot convert float NaN to integer")
    return fill


def full_like(obj, fill, dtype=None):
    """dtype None keeps every variable's own dtype (so a NaN fill becomes True in a bool variable, 'nan' in a str
    variable and an error in an int variable), a single dtype applies to all, a dict gives it per variable"""
    def one(da, dt):
        v = _cast_fill(fill, da.dtype if dt is None else dt)
        return da._map(lambda _: v)

    if isinstance(obj, DataArray):
        return one(obj, dtype)
    out = obj.copy(deep=True)
    out._vars = {n: one(da, dtype.get(n) if isinstance(dtype, dict) else dtype) for n, da in obj._vars.items()}
    return out


class MiniXRModule:
    Dataset = Dataset
    DataArray = DataArray
    MergeError = MergeError
    concat = staticmethod(concat)
    merge = staticmethod(merge)
    full_like = staticmethod(full_like)
    open_dataset = staticmethod(open_dataset)


class MiniJoblib:
    # datasets handed out with mmap_mode: their arrays are views of the file, so a later dump of same-shaped data
    # under the same name shows through them (numpy.memmap semantics); without mmap_mode a load is a private copy
    _views = {}

    @staticmethod
    def dump(obj, file_name, **kw):
        _FS[0].put(file_name, ("JOBLIB", obj.copy(deep=True) if hasattr(obj, "copy") else obj))
        for view in MiniJoblib._views.get((id(_FS[0]), file_name), []):
            if isinstance(view, Dataset) and isinstance(obj, Dataset):
                for n, da in view._vars.items():
                    src = obj._vars.get(n)
                    if src is not None and src.dims == da.dims and src.coords_ == da.coords_:
                        da.cells = dict(src.cells)

    @staticmethod
    def load(file_name, mmap_mode=None, **kw):
        obj = _FS[0].get(file_name)
        if not (isinstance(obj, tuple) and obj and obj[0] == "JOBLIB"):
            raise OSError("not a joblib dump: %r" % (file_name,))
        out = obj[1].copy(deep=True) if hasattr(obj[1], "copy") else obj[1]
        if mmap_mode is not None:
            MiniJoblib._views.setdefault((id(_FS[0]), file_name), []).append(out)
        return out


def install(env, cr, ca, cp, fm, mg):
    """patch xr / np (/ joblib) in the module globals of xyzpy"""
    np_ = MiniNP()
    env.np = np_
    if env.choice is not None:
        np_.choice_source = list(env.choice)
    _FS[0] = env.fs
    for m in (cr, fm, mg):
        env._set(m, "xr", MiniXRModule)
        env._set(m, "np", np_)
    env._set(mg, "joblib", MiniJoblib)
    if env.want_pd:
        from . import minipd

        env._set(fm, "pd", minipd.MiniPDModule)
        env.swap_module("pandas", minipd.MiniPDModule)
    env.swap_module("numpy", np_)
