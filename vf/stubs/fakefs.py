"""FakeFS: in-memory POSIX-like file system for the calls xyzpy makes.

Object mode: `write_to_disk(obj, path)` stores a structural copy of obj under
the path the *real* code computed; `read_from_disk(path)` returns it or raises
FileNotFoundError.  Directories are explicit.  rmtree removes entry by entry.
"""
import contextlib
import fnmatch
import posixpath

from ..common import HarnessError

try:
    from crosshair.tracers import NoTracing as _NoTracing, is_tracing as _is_tracing
    from crosshair.core import deep_realize as _deep_realize
except Exception:  # crosshair absent: plain execution
    _NoTracing = contextlib.nullcontext

    def _is_tracing():
        return False

    def _deep_realize(x):
        return x


def native(fn):
    """Run a stub method outside CrossHair's opcode tracing.

    Sound because the method only handles *concrete* path strings: any
    argument that is not a real str/int is realised first (which forks, under
    the solver, over its feasible values) and stored objects are treated as
    opaque leaves."""

    def wrapper(self, *args, **kw):
        if _is_tracing():
            args = tuple(_concrete_path(a) for a in args)
            kw = {k: _concrete_path(v) for k, v in kw.items()}
            with _NoTracing():
                return fn(self, *args, **kw)
        return fn(self, *args, **kw)

    wrapper.__name__ = fn.__name__
    return wrapper


def _concrete_path(a):
    with _NoTracing():
        ok = type(a) in (str, int, bool, type(None))
    return a if ok else _deep_realize(a)


def _snap(o):
    t = type(o)
    if t is list:
        return [_snap(x) for x in o]
    if t is tuple:
        return tuple(_snap(x) for x in o)
    if t is dict:
        return {k: _snap(v) for k, v in o.items()}
    return o


def snap(o):
    """Structural copy (real list/tuple/dict containers copied, leaves - incl.
    symbolic values and proxies - shared): what a pickle round trip guarantees
    as far as xyzpy's own containers are concerned."""
    if _is_tracing():
        with _NoTracing():
            return _snap(o)
    return _snap(o)


class _Unreadable:
    """content of a file that cannot be unpickled (truncated / corrupt)"""

    def __repr__(self):
        return "<UNREADABLE>"


UNREADABLE = _Unreadable()          # an empty file: pickle.load raises EOFError("Ran out of input")


class _Truncated(_Unreadable):
    """a pickle cut short: pickle.load raises UnpicklingError("pickle data was truncated")"""

    def __repr__(self):
        return "<TRUNCATED>"


TRUNCATED = _Truncated()


class FakeFS:
    def __init__(self):
        self.files = {}  # path -> object
        self.dirs = {"/"}
        self.readonly = set()
        self.oplog = []

    # --- primitive operations -------------------------------------------
    def _norm(self, p):
        if not isinstance(p, str):
            raise TypeError("path must be str, not %r" % type(p))
        if not p.startswith("/"):
            p = posixpath.join(getattr(self, "cwd", "/cwd"), p)      # relative paths: against the working directory
        return posixpath.normpath(p)

    @native
    def makedirs(self, p, exist_ok=False):
        p = self._norm(p)
        if p in self.files:
            raise FileExistsError(p)
        if p in self.dirs:
            if not exist_ok:
                raise FileExistsError(p)
            return
        parts = p.split("/")
        for i in range(2, len(parts) + 1):
            d = "/".join(parts[:i])
            if d in self.files:
                raise NotADirectoryError(d)
            self.dirs.add(d)

    @native
    def exists(self, p):
        p = self._norm(p)
        return p in self.files or p in self.dirs

    @native
    def isfile(self, p):
        return self._norm(p) in self.files

    @native
    def isdir(self, p):
        return self._norm(p) in self.dirs

    @native
    def access_w(self, p):
        p = self._norm(p)
        return (p in self.files or p in self.dirs) and p not in self.readonly

    def put(self, p, obj):
        if _is_tracing():
            p = _concrete_path(p)
            with _NoTracing():
                return self._put(p, obj)
        return self._put(p, obj)

    def _put(self, p, obj):
        p = self._norm(p)
        if posixpath.dirname(p) not in self.dirs:
            raise FileNotFoundError(p)
        if p in self.dirs:
            raise IsADirectoryError(p)
        self.files[p] = obj
        self.oplog.append(("put", p))

    @native
    def get(self, p):
        p = self._norm(p)
        if p in self.dirs:
            raise IsADirectoryError(p)
        if p not in self.files:
            raise FileNotFoundError(p)
        return self.files[p]

    @native
    def remove(self, p):
        p = self._norm(p)
        if p in self.dirs:
            raise IsADirectoryError(p)
        if p not in self.files:
            raise FileNotFoundError(p)
        del self.files[p]
        self.oplog.append(("remove", p))

    @native
    def replace(self, a, b):
        a, b = self._norm(a), self._norm(b)
        if a not in self.files:
            raise FileNotFoundError(a)
        if b in self.dirs:
            raise IsADirectoryError(b)
        self.files[b] = self.files.pop(a)
        self.oplog.append(("replace", a, b))

    @native
    def rmtree(self, p):
        p = self._norm(p)
        if p not in self.dirs:
            if p in self.files:
                raise NotADirectoryError(p)
            raise FileNotFoundError(p)
        pre = p + "/"
        for k in sorted(k for k in self.files if k.startswith(pre)):
            del self.files[k]
            self.oplog.append(("remove", k))
        for d in sorted((d for d in self.dirs if d == p or d.startswith(pre)), reverse=True):
            self.dirs.discard(d)

    @native
    def glob(self, pat):
        d0 = posixpath.dirname(pat)
        d = self._norm(d0) if d0 else getattr(self, "cwd", "/cwd")
        base = posixpath.basename(pat)
        out = []
        for k in list(self.files) + [x for x in self.dirs if x != "/"]:
            if posixpath.dirname(k) == d and fnmatch.fnmatchcase(posixpath.basename(k), base):
                # like glob.glob: results are spelled like the pattern (relative stays relative)
                out.append(k if pat.startswith("/") else posixpath.join(d0, posixpath.basename(k)))
        return sorted(out)

    @native
    def listdir(self, p):
        p = self._norm(p)
        return sorted(
            posixpath.basename(k)
            for k in list(self.files) + list(self.dirs)
            if posixpath.dirname(k) == p and k != p
        )

    @native
    def tree(self, p):
        """All file paths under p (for 'nothing changed' comparisons)."""
        p = self._norm(p)
        pre = p + "/"
        return {k: self.files[k] for k in self.files if k.startswith(pre)}


def _native_static(fn):
    def wrapper(*args):
        if _is_tracing():
            args = tuple(_concrete_path(a) for a in args)
            with _NoTracing():
                return fn(*args)
        return fn(*args)

    return staticmethod(wrapper)


class FakePath:
    join = _native_static(posixpath.join)
    split = _native_static(posixpath.split)
    relpath = _native_static(posixpath.relpath)
    basename = _native_static(posixpath.basename)
    dirname = _native_static(posixpath.dirname)
    splitext = _native_static(posixpath.splitext)
    expanduser = staticmethod(lambda p: p)

    def __init__(self, fs):
        self.fs = fs

    def exists(self, p):
        return self.fs.exists(p)

    def isfile(self, p):
        return self.fs.isfile(p)

    def isdir(self, p):
        return self.fs.isdir(p)


class FakeOS:
    W_OK = 2
    R_OK = 4
    sep = "/"

    def __init__(self, fs, cwd="/cwd"):
        self.fs = fs
        self.path = FakePath(fs)
        self.environ = {}
        self._cwd = cwd

    def makedirs(self, p, exist_ok=False):
        self.fs.makedirs(p, exist_ok)

    def remove(self, p):
        self.fs.remove(p)

    def replace(self, a, b):
        self.fs.replace(a, b)

    rename = replace

    def access(self, p, mode):
        if mode == self.W_OK:
            return self.fs.access_w(p)
        return self.fs.exists(p)

    def getcwd(self):
        return getattr(self.fs, "cwd", self._cwd)

    def chdir(self, p):
        if not self.fs.isdir(p):
            raise FileNotFoundError(p)
        self.fs.cwd = self.fs._norm(p)

    def listdir(self, p):
        return self.fs.listdir(p)

    def scandir(self, p):
        return _ScanDir([_DirEntry(self.fs, p, n) for n in self.fs.listdir(p)])

    # low-level descriptors, as far as lock / marker files need them (create-exclusively, close, unlink)
    O_RDONLY, O_WRONLY, O_RDWR, O_CREAT, O_EXCL, O_TRUNC, O_APPEND = 0, 1, 2, 64, 128, 512, 1024

    def open(self, p, flags, mode=0o777):
        exists = self.fs.exists(p)
        if flags & self.O_CREAT:
            if exists and flags & self.O_EXCL:
                raise FileExistsError(p)
            if not exists:
                if hasattr(self.fs, "create"):
                    self.fs.create(p)          # one step of the step-level file system
                else:
                    self.fs.put(p, b"")
        elif not exists:
            raise FileNotFoundError(p)
        self._nfd = getattr(self, "_nfd", 1000) + 1
        return self._nfd

    def close(self, fd):
        return None

    def write(self, fd, data):
        return len(data)

    def unlink(self, p):
        self.fs.remove(p)

    pid = 4242

    def getpid(self):
        return self.pid


class _DirEntry:
    def __init__(self, fs, d, name):
        self.name = name
        self.path = d.rstrip("/") + "/" + name
        self._fs = fs

    def is_file(self, follow_symlinks=True):
        return self._fs.isfile(self.path)

    def is_dir(self, follow_symlinks=True):
        return self._fs.isdir(self.path)


class _ScanDir(list):
    def __enter__(self):
        return self

    def __exit__(self, *a):
        return False

    def close(self):
        pass


class FakeGlob:
    def __init__(self, fs):
        self.fs = fs

    def glob(self, pat):
        return self.fs.glob(pat)

    def escape(self, p):
        import glob as _g

        return _g.escape(p)


class FakeShutil:
    def __init__(self, fs):
        self.fs = fs

    def rmtree(self, p, ignore_errors=False, onerror=None):
        try:
            self.fs.rmtree(p)
        except OSError:
            if not ignore_errors:
                raise

    def copy(self, a, b):
        self.fs.put(b, self.fs.get(a))
