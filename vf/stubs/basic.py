"""NoBar, NDRandom, NDExecutor: stand-ins for tqdm, `random` and worker pools.

Contracts (part of every claim that uses them):

NoBar       iterates its iterable, everything else is a no-op.
NDRandom    seed(s) selects a permutation source keyed by (int(s), len);
            shuffle(x) permutes x in place by Fisher-Yates driven by externally
            supplied (symbolic) indices j_i in [0, i].  Same seed and length =>
            same permutation; different seeds => independent permutations.
NDExecutor  every submitted task runs exactly once, after its submission and
            no later than the first wait on any future, in an order chosen by
            externally supplied (symbolic) indices; result()/get() return the
            task's value or re-raise its exception.
"""
import multiprocessing.pool

from ..common import HarnessError


class NoBar:
    def __init__(self, it=None, **kw):
        self.it = it

    def __enter__(self):
        return self

    def __exit__(self, *a):
        return False

    def __iter__(self):
        return iter(self.it)

    def update(self, n=1):
        pass

    def set_description(self, *a, **k):
        pass

    def close(self):
        pass


def nobar(it=None, nb=False, **kw):
    return NoBar(it)


def fisher_yates(x, js):
    """In-place permutation of list x by swap indices js[i] in [0, i]."""
    for i in range(len(x) - 1, 0, -1):
        j = js[i]
        # explicit fork per feasible value (cheaper than CrossHair's own
        # realisation of a symbolic index, and exhaustive by construction)
        for k in range(i + 1):
            if j == k:
                break
        else:
            raise HarnessError("shuffle index out of range")
        if k != i:
            x[i], x[k] = x[k], x[i]


class NDRandom:
    """Replacement for the `random` module global of combo_runner."""

    def __init__(self, pools):
        # pools: list of index lists; one is consumed per distinct (seed, len)
        self.pools = list(pools)
        self.sources = {}
        self.cur = None
        self.log = []

    def seed(self, s):
        self.cur = int(s)

    def shuffle(self, x):
        key = (self.cur, len(x))
        if key not in self.sources:
            if not self.pools:
                raise HarnessError("NDRandom: more distinct (seed, len) pairs than pools")
            self.sources[key] = self.pools.pop(0)
        self.log.append(key)
        fisher_yates(x, self.sources[key])


class _Future:
    def __init__(self, ex, fn, args, kwds):
        self.ex, self.fn, self.args, self.kwds = ex, fn, args, kwds
        self.state = 0  # 0 pending, 1 value, 2 exception
        self.value = None

    def _run(self):
        if self.state:
            raise HarnessError("task run twice")
        try:
            self.value = self.fn(*self.args, **self.kwds)
            self.state = 1
        except Exception as e:  # noqa: only Exception, never BaseException
            self.value = e
            self.state = 2

    def _wait(self):
        if not self.state:
            self.ex._drain()
        if self.state == 2:
            raise self.value
        return self.value


class _ResultFuture(_Future):
    def result(self, timeout=None):
        return self._wait()


class _GetFuture(_Future):
    def get(self, timeout=None):
        return self._wait()


class _ExecCore:
    def _init(self, js, fut_cls):
        self._js = js          # Fisher-Yates indices choosing the run order
        self._pending = []
        self._fut_cls = fut_cls
        self.ran = 0

    def _mk(self, fn, args, kwds):
        f = self._fut_cls(self, fn, tuple(args), dict(kwds))
        self._pending.append(f)
        return f

    def _drain(self):
        order = list(self._pending)
        self._pending = []
        if self._js is not None:
            fisher_yates(order, self._js)
        for f in order:
            f._run()
            self.ran += 1


class SubmitExecutor(_ExecCore):
    """concurrent.futures flavour."""

    def __init__(self, js=None):
        self._init(js, _ResultFuture)

    def submit(self, fn, *args, **kwds):
        return self._mk(fn, args, kwds)


class ApplyAsyncExecutor(_ExecCore):
    """ipyparallel-view flavour: apply_async(fn, *args, **kwds) -> .get()"""

    def __init__(self, js=None):
        self._init(js, _GetFuture)

    def apply_async(self, fn, *args, **kwds):
        return self._mk(fn, args, kwds)


class MPPoolExecutor(multiprocessing.pool.Pool, _ExecCore):
    """multiprocessing.pool.Pool flavour: apply_async(fn, args, kwds) -> .get()

    Real subclass (so isinstance dispatch in _submit is exercised) that never
    starts a process.
    """

    def __init__(self, js=None):  # deliberately no super().__init__
        self._state = "CLOSE"
        self._init(js, _GetFuture)

    def apply_async(self, func, args=(), kwds={}, callback=None, error_callback=None):
        return self._mk(func, args, kwds)

    def __del__(self, *a, **k):
        pass

    def __reduce__(self):
        raise NotImplementedError


class _IdxFuture(__import__("concurrent.futures").futures.Future):
    """a real concurrent.futures.Future whose hash is its submission index, so that sets of them
    iterate deterministically (as_completed puts its futures in a set)"""

    def __init__(self, idx):
        super().__init__()
        self._idx = idx

    def __hash__(self):
        return self._idx

    def __eq__(self, other):
        return self is other


class EagerFutureExecutor:
    """submit-style pool that runs each task at submission and returns real, already finished Future
    objects: compatible with code that collects results with f.result() in submission order and with
    code that (wrongly, for ordered results) iterates concurrent.futures.as_completed(fs)"""

    def __init__(self):
        self.ran = 0

    def submit(self, fn, *args, **kwds):
        f = _IdxFuture(self.ran)
        self.ran += 1
        try:
            f.set_result(fn(*args, **kwds))
        except Exception as e:  # noqa
            f.set_exception(e)
        return f
