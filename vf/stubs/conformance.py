"""Differential conformance of the stubs against the real libraries (concrete inputs).

Run at the start of every check that uses MiniXR / MiniPD / FakeFS / NDRandom; a mismatch is a
harness error (exit 2), never a violation.   python -m vf.stubs.conformance
"""
import itertools
import math
import os
import random
import shutil
import sys
import tempfile
import warnings

from . import minixr as mx
from . import fakefs, basic

warnings.filterwarnings("ignore")


def to_real(ds):
    import numpy as np
    import xarray as xr

    coords = {d: list(v) for d, v in ds._coords.items() if d not in ds._nocoord}
    dv = {}
    for n, da in ds._vars.items():
        dv[n] = (da.dims, np.array(da.values, dtype=float) if da.dims else da.values)
    return xr.Dataset(coords=coords, data_vars=dv, attrs=dict(ds.attrs))


def cells_real(xds):
    """{(var, ((dim, label), ...)): value or 'nan'} for a real dataset"""
    import numpy as np

    out = {}
    for n in xds.data_vars:
        da = xds[n]
        labs = [list(da[d].values) if d in da.coords else list(range(da.sizes[d])) for d in da.dims]
        for idx in itertools.product(*(range(len(l)) for l in labs)):
            v = da.values[idx] if da.dims else da.values
            v = float(v)
            key = (n, tuple((d, _py(l[i])) for d, l, i in zip(da.dims, labs, idx)))
            out[key] = "nan" if math.isnan(v) else v
    return out


def _py(x):
    try:
        return x.item()
    except AttributeError:
        return x


def cells_mini(ds):
    out = {}
    for n, da in ds._vars.items():
        for k, v in da.cells.items():
            out[(n, tuple(zip(da.dims, k)))] = "nan" if mx.isnull(v) else float(v)
    return out


def coords_real(xds):
    return {d: [_py(x) for x in xds[d].values] for d in xds.dims if d in xds.coords}


def coords_mini(ds):
    return {d: list(v) for d, v in ds._coords.items() if d not in ds._nocoord}


def same(mini, real, what, order=True):
    if cells_mini(mini) != cells_real(real):
        return "%s: cells differ: %r vs %r" % (what, cells_mini(mini), cells_real(real))
    cm, cr = coords_mini(mini), coords_real(real)
    if order and cm != cr:
        return "%s: coords differ: %r vs %r" % (what, cm, cr)
    return None


def outcome(f):
    try:
        return ("ok", f())
    except Exception as e:  # noqa
        return ("exc", type(e).__name__)


def gen_1d(labels_opts, vals):
    for labs in labels_opts:
        for cells in itertools.product(vals, repeat=len(labs)):
            ds = mx.Dataset(coords={"a": list(labs)}, data_vars={"x": (("a",), list(cells))})
            yield ds


def check_minixr():
    import numpy as np
    import xarray as xr

    n = 0
    V = [mx.NAN, 5.0, 7.0]
    L = [(1,), (1, 2), (2, 3), (3, 1), (2,)]
    ones = list(gen_1d(L, V))
    # merge / combine_first over all pairs
    for A in ones:
        rA = to_real(A)
        for B in ones:
            rB = to_real(B)
            n += 1
            for name, fm_, fr_ in (
                ("merge", lambda: A.merge(B, compat="no_conflicts"), lambda: rA.merge(rB, compat="no_conflicts")),
                ("combine_first", lambda: A.combine_first(B), lambda: rA.combine_first(rB)),
                ("xr.merge", lambda: mx.merge([A, B]), lambda: xr.merge([rA, rB])),
                ("xr.merge-override", lambda: mx.merge([A, B], compat="override"),
                 lambda: xr.merge([rA, rB], compat="override")),
            ):
                om, orr = outcome(fm_), outcome(fr_)
                if om[0] != orr[0]:
                    return n, "%s outcome differs on %r / %r: %r vs %r" % (name, cells_mini(A), cells_mini(B), om, orr)
                if om[0] == "exc":
                    if (om[1] == "MergeError") != (orr[1] == "MergeError"):
                        return n, "%s exception differs: %r vs %r" % (name, om, orr)
                    continue
                bad = same(om[1], orr[1], name)
                if bad:
                    return n, bad
    # two variables with different dims, 2-d
    for ca, cb in itertools.product(itertools.product(V, repeat=2), itertools.product(V[:2], repeat=2)):
        A = mx.Dataset(coords={"a": [1, 2], "b": [10]}, data_vars={"x": (("a", "b"), [[ca[0]], [ca[1]]]),
                                                                 "y": (("a",), list(cb))})
        B = mx.Dataset(coords={"a": [2], "b": [10, 20]}, data_vars={"x": (("a", "b"), [[cb[0], cb[1]]])})
        rA, rB = to_real(A), to_real(B)
        n += 1
        for name, fm_, fr_ in (("merge2", lambda: A.merge(B, compat="no_conflicts"),
                                lambda: rA.merge(rB, compat="no_conflicts")),
                               ("merge2-override", lambda: mx.merge([A, B], compat="override"),
                                lambda: xr.merge([rA, rB], compat="override")),
                               ("merge2r-override", lambda: mx.merge([B, A], compat="override"),
                                lambda: xr.merge([rB, rA], compat="override")),
                               ("cf2", lambda: A.combine_first(B), lambda: rA.combine_first(rB)),
                               ("cf2r", lambda: B.combine_first(A), lambda: rB.combine_first(rA))):
            om, orr = outcome(fm_), outcome(fr_)
            if om[0] != orr[0]:
                return n, "%s outcome differs: %r vs %r" % (name, om, orr)
            if om[0] == "ok":
                bad = same(om[1], orr[1], name)
                if bad:
                    return n, bad
    # sel / isnull / all / to_array / item, isfinite
    for ca in itertools.product([mx.NAN, 5.0, float("inf")], repeat=4):
        A = mx.Dataset(coords={"a": [1, 2], "t": [0, 1]},
                       data_vars={"x": (("a", "t"), [[ca[0], ca[1]], [ca[2], ca[3]]]), "y": (("a",), [ca[0], ca[3]])})
        rA = to_real(A)
        for setting in ({"a": 1}, {"a": 2}, {"a": 3}, {"a": 1, "t": 1}, {"q": 1}):
            n += 1
            for meth in ("isnull", "isfinite"):
                def fm_():
                    s = A.sel(setting)
                    s = s.isnull() if meth == "isnull" else ~mx.MiniNP.isfinite(s)
                    return bool(s.all().to_array().all().item())

                def fr_():
                    s = rA.sel(setting)
                    s = s.isnull() if meth == "isnull" else ~np.isfinite(s)
                    return bool(s.all().to_array().all().item())

                om, orr = outcome(fm_), outcome(fr_)
                if om[0] != orr[0] or (om[0] == "ok" and om[1] != orr[1]):
                    return n, "sel/%s %r on %r: %r vs %r" % (meth, setting, ca, om, orr)
                if om[0] == "exc" and (om[1] == "KeyError") != (orr[1] == "KeyError"):
                    return n, "sel/%s %r exception: %r vs %r" % (meth, setting, om, orr)
    # constructor shape validation, concat + coordinate assignment, expand_dims, drop_sel, full_like
    for shape_ok in (True, False):
        data = [[1.0, 2.0], [3.0, 4.0]] if shape_ok else [[1.0, 2.0, 3.0], [4.0, 5.0, 6.0]]
        om = outcome(lambda: mx.Dataset(coords={"a": [1, 2], "b": [5, 6]}, data_vars={"x": (("a", "b"), mx.MiniNP.asarray(data))}))
        orr = outcome(lambda: xr.Dataset(coords={"a": [1, 2], "b": [5, 6]}, data_vars={"x": (("a", "b"), np.asarray(data))}))
        n += 1
        if om[0] != orr[0]:
            return n, "constructor validation differs: %r vs %r" % (om, orr)
    pieces = [mx.Dataset(data_vars={"x": ((), float(i)), "y": (("t",), [float(i), 2.0 * i])}, coords={"t": [0, 1]})
              for i in range(3)]
    cm = mx.concat(pieces, dim="a")
    cm["a"] = [10, 20, 30]
    cr_ = xr.concat([to_real(p) for p in pieces], dim="a")
    cr_["a"] = [10, 20, 30]
    n += 1
    bad = same(cm, cr_, "concat")
    if bad:
        return n, bad
    if tuple(cm["y"].dims) != tuple(cr_["y"].dims) or tuple(cm["x"].dims) != tuple(cr_["x"].dims):
        return n, "concat dims differ: %r vs %r" % (cm["y"].dims, cr_["y"].dims)
    # concat of DataArrays gives a DataArray (as xarray), to which the swept coordinate is then assigned
    das_m = [p["y"] for p in pieces]
    das_r = [to_real(p)["y"] for p in pieces]
    dm = mx.concat(das_m, dim="a")
    dm["a"] = [10, 20, 30]
    dr = xr.concat(das_r, dim="a")
    dr["a"] = [10, 20, 30]
    n += 1
    if not isinstance(dm, mx.DataArray) or not isinstance(dr, xr.DataArray) or tuple(dm.dims) != tuple(dr.dims) \
            or dm.name != dr.name:
        return n, "concat of DataArrays: %r vs %r" % (type(dm), type(dr))
    bad = same(dm.to_dataset(), dr.to_dataset(), "concat of DataArrays")
    if bad:
        return n, bad
    # concat of pieces whose internal coordinate differs (outer join) and join="override"
    pieces2 = [mx.Dataset(data_vars={"y": (("t",), [float(i), 2.0 + i])}, coords={"t": [i, i + 1]}) for i in range(3)]
    for jn in ("outer", "override"):
        om = outcome(lambda: mx.concat(pieces2, dim="a", join=jn))
        orr = outcome(lambda: xr.concat([to_real(p) for p in pieces2], dim="a", join=jn))
        n += 1
        if om[0] != orr[0]:
            return n, "concat join=%s outcome differs: %r vs %r" % (jn, om, orr)
        if om[0] == "ok":
            bad = same(om[1], orr[1], "concat join=%s" % jn)
            if bad:
                return n, bad
    # order of Dataset.dims (data variables first) vs Dataset.indexes (coordinates), with a variable stored
    # transposed relative to the coordinate declaration
    tm = mx.Dataset(coords={"a": [1, 2, 3], "b": [10, 20]}, data_vars={"x": (("b", "a"), [[1.0, 2.0, 3.0], [4.0, 5.0, 6.0]])})
    tr = xr.Dataset(coords={"a": [1, 2, 3], "b": [10, 20]}, data_vars={"x": (("b", "a"), np.array([[1.0, 2.0, 3.0], [4.0, 5.0, 6.0]]))})
    n += 1
    if list(tm.dims) != list(tr.dims) or list(tm.indexes) != list(tr.indexes):
        return n, "dims/indexes order differs: %r %r vs %r %r" % (list(tm.dims), list(tm.indexes), list(tr.dims), list(tr.indexes))
    n += 1
    if cells_mini(tm.copy(deep=True)) != cells_real(tr) or tuple(tm["x"].transpose("a", "b").dims) != tuple(tr["x"].transpose("a", "b").dims):
        return n, "transpose differs"
    em = cm.expand_dims("c")
    em.coords["c"] = [7]
    er = cr_.expand_dims("c")
    er.coords["c"] = [7]
    n += 1
    bad = same(em, er, "expand_dims")
    if bad:
        return n, bad
    for labs in ({"a": [10]}, {"a": [10, 30]}, {"a": [99]}):
        om, orr = outcome(lambda: cm.drop_sel(labs)), outcome(lambda: cr_.drop_sel(labs))
        n += 1
        if om[0] != orr[0]:
            return n, "drop_sel %r: %r vs %r" % (labs, om, orr)
        if om[0] == "ok":
            bad = same(om[1], orr[1], "drop_sel")
            if bad:
                return n, bad
    fm_ = mx.full_like(cm, mx.NAN)
    fr_ = xr.full_like(cr_, np.nan, dtype=float)
    n += 1
    bad = same(fm_, fr_, "full_like")
    if bad:
        return n, bad
    # full_like with per-variable dtypes: what a NaN fill becomes in bool / str / float variables
    md = mx.Dataset({"e": 1.5, "ok": True, "tag": "t"})
    rd = xr.Dataset({"e": 1.5, "ok": True, "tag": "t"})
    for dt in (float, None, {"e": float, "ok": bool, "tag": np.dtype("<U8")}):
        om = outcome(lambda: mx.full_like(md, mx.NAN, dtype=dt))
        orr = outcome(lambda: xr.full_like(rd, np.nan, dtype=dt))
        n += 1
        if om[0] != orr[0]:
            return n, "full_like dtype=%r: %r vs %r" % (dt, om, orr)
        if om[0] == "ok":
            for v in ("e", "ok", "tag"):
                a = om[1]._vars[v].cells[()]
                b = orr[1][v].values.item()
                if (mx.isnull(a), None if mx.isnull(a) else a) != ((b != b), None if b != b else b):
                    return n, "full_like dtype=%r variable %s: %r vs %r" % (dt, v, a, b)
    if md._vars["ok"].dtype != rd["ok"].dtype or md._vars["e"].dtype != rd["e"].dtype:
        return n, "dtype of bool / float variables differs"
    # isel / sel: positions, empty indexers, option-named keyword arguments
    m2 = mx.Dataset(coords={"a": [1, 2], "tolerance": [0.1, 0.2]},
                    data_vars={"x": (("a", "tolerance"), [[1.0, 2.0], [3.0, 4.0]])})
    r2 = xr.Dataset(coords={"a": [1, 2], "tolerance": [0.1, 0.2]},
                    data_vars={"x": (("a", "tolerance"), np.array([[1.0, 2.0], [3.0, 4.0]]))})
    for what, fm2, fr2 in (
            ("isel {}", lambda: m2.isel({}), lambda: r2.isel({})),
            ("isel a=0", lambda: m2.isel({"a": 0}), lambda: r2.isel({"a": 0})),
            ("isel a=-1", lambda: m2.isel(a=-1), lambda: r2.isel(a=-1)),
            ("isel a=5", lambda: m2.isel(a=5), lambda: r2.isel(a=5)),
            ("isel q", lambda: m2.isel({"q": 0}), lambda: r2.isel({"q": 0})),
            ("sel dict", lambda: m2.sel({"a": 1, "tolerance": 0.2}), lambda: r2.sel({"a": 1, "tolerance": 0.2})),
            ("sel **kw tolerance", lambda: m2.sel(a=1, tolerance=0.2), lambda: r2.sel(a=1, tolerance=0.2)),
            ("sel drop", lambda: m2.sel({"a": 2}, drop=True), lambda: r2.sel({"a": 2}, drop=True)),
            ("sel method int", lambda: m2.sel({"a": 2}, method=3), lambda: r2.sel({"a": 2}, method=3))):
        om, orr = outcome(fm2), outcome(fr2)
        n += 1
        if om[0] != orr[0] or (om[0] == "exc" and om[1] != orr[1]):
            return n, "%s: %r vs %r" % (what, om, orr)
        if om[0] == "ok":
            bad = same(om[1], orr[1], what)
            if bad:
                return n, bad
    return n, None


def check_fakefs():
    """every FakeFS call replayed on a real temp dir"""
    tmp = tempfile.mkdtemp(prefix="vf-conf-")
    n = 0
    try:
        fs = fakefs.FakeFS()
        fs.makedirs("/p", exist_ok=True)
        fos = fakefs.FakeOS(fs)
        R = lambda p: tmp + p  # noqa
        import glob as g

        script = [
            ("makedirs", "/p/c/batches"), ("makedirs", "/p/c/results"), ("makedirs", "/p/c/results"),
            ("put", "/p/c/batches/xyz-batch-1.jbdmp"), ("put", "/p/c/batches/xyz-batch-10.jbdmp"),
            ("put", "/p/c/results/xyz-result-1.jbdmp"), ("put", "/p/c/xyz-settings.jbdmp"),
            ("exists", "/p/c"), ("isfile", "/p/c"), ("isfile", "/p/c/xyz-settings.jbdmp"),
            ("exists", "/p/c/nothing"), ("glob", "/p/c/batches/xyz-batch-*.jbdmp"),
            ("glob", "/p/c/results/xyz-result-*.jbdmp"), ("remove", "/p/c/results/xyz-result-1.jbdmp"),
            ("remove", "/p/c/results/xyz-result-1.jbdmp"), ("glob", "/p/c/results/xyz-result-*.jbdmp"),
            ("access", "/p/c/xyz-settings.jbdmp"), ("access", "/p/c/none"),
            ("replace", "/p/c/xyz-settings.jbdmp", "/p/c/s2"), ("isfile", "/p/c/s2"),
            ("rmtree", "/p/c"), ("exists", "/p/c"), ("rmtree", "/p/c"),
        ]
        os.makedirs(R("/p"))
        for step in script:
            op, a = step[0], step[1:]
            n += 1

            def fake():
                if op == "makedirs":
                    return fos.makedirs(a[0], exist_ok=True)
                if op == "put":
                    return fs.put(a[0], 1)
                if op == "exists":
                    return fos.path.exists(a[0])
                if op == "isfile":
                    return fos.path.isfile(a[0])
                if op == "glob":
                    return sorted(fs.glob(a[0]))
                if op == "remove":
                    return fos.remove(a[0])
                if op == "access":
                    return fos.access(a[0], fos.W_OK)
                if op == "replace":
                    return fos.replace(a[0], a[1])
                if op == "rmtree":
                    return fs.rmtree(a[0])

            def real():
                if op == "makedirs":
                    return os.makedirs(R(a[0]), exist_ok=True)
                if op == "put":
                    with open(R(a[0]), "wb") as f:
                        f.write(b"1")
                    return None
                if op == "exists":
                    return os.path.exists(R(a[0]))
                if op == "isfile":
                    return os.path.isfile(R(a[0]))
                if op == "glob":
                    return sorted(p[len(tmp):] for p in g.glob(R(a[0])))
                if op == "remove":
                    return os.remove(R(a[0]))
                if op == "access":
                    return os.access(R(a[0]), os.W_OK)
                if op == "replace":
                    return os.replace(R(a[0]), R(a[1]))
                if op == "rmtree":
                    return shutil.rmtree(R(a[0]))

            of, orr = outcome(fake), outcome(real)
            if of != orr:
                return n, "FakeFS %r: %r vs real %r" % (step, of, orr)
    finally:
        shutil.rmtree(tmp, ignore_errors=True)
    return n, None


def check_random():
    """real random.seed(k); random.shuffle is a permutation, deterministic in (k, len)"""
    n = 0
    for k in (True, 1, 2, 7, 12345):
        for ln in (2, 3, 5, 8):
            random.seed(int(k))
            x = list(range(ln))
            random.shuffle(x)
            random.seed(int(k))
            y = list(range(ln))
            random.shuffle(y)
            n += 1
            if x != y or sorted(x) != list(range(ln)):
                return n, "random.shuffle not a deterministic permutation for seed %r" % (k,)
    # every Fisher-Yates index vector is a permutation and all are reachable
    seen = set()
    for js in itertools.product(range(1), range(2), range(3), range(4)):
        x = list(range(4))
        basic.fisher_yates(x, list(js))
        seen.add(tuple(x))
        n += 1
    if len(seen) != 24:
        return n, "Fisher-Yates stub does not reach all permutations"
    return n, None


def check_pickle_prefix():
    """lemma used by StepFS: no proper prefix of a pickle stream unpickles"""
    import pickle

    n = 0
    for obj in ((1.5, 2), [{"a": 1, "b": 2}], tuple(range(7)), {"combos": (("a", [1, 2]),), "shuffle": False},
                (float("nan"),), ("x", None, True)):
        data = pickle.dumps(obj)
        for k in range(len(data)):
            n += 1
            try:
                pickle.loads(data[:k])
                return n, "a proper prefix (%d of %d bytes) of a pickle unpickles" % (k, len(data))
            except Exception:
                pass
    return n, None


def check_minipd():
    import pandas as pd

    from . import minipd

    n = 0
    rows1 = [{"a": 1, "b": 2, "x": 3.0}, {"a": 2, "b": 2, "x": 4.0}]
    rows2 = [{"a": 5, "b": 6, "x": 7.0}]
    m = minipd.concat([minipd.DataFrame(rows1), minipd.DataFrame(rows2)], ignore_index=True, sort=True)
    r = pd.concat([pd.DataFrame(rows1), pd.DataFrame(rows2)], ignore_index=True, sort=True)
    n += 1
    if [dict(x) for x in r.to_dict("records")] != m.to_dict():
        return n, "MiniPD.concat differs from pandas"
    n += 1
    if len(minipd.DataFrame(rows1).copy()) != len(pd.DataFrame(rows1).copy(deep=True)):
        return n, "MiniPD.copy differs"
    # compression is inferred from the end of the file name, for writing and for reading
    import os
    import shutil
    import tempfile

    from . import fakefs, minixr

    tmp = tempfile.mkdtemp()
    old_fs = minixr._FS[0]
    minixr._FS[0] = fs = fakefs.FakeFS()
    fs.makedirs(tmp, exist_ok=True)
    try:
        for wname, rname in (("t.pkl", "t.pkl"), ("t.pkl.gz", "t.pkl.gz"), ("u.pkl.gz.tmp", "u.pkl.gz"),
                             (".tmp-v.pkl.gz", "v.pkl.gz"), ("w.pkl.gz", "w.pkl")):
            outs = []
            for lib, frame in ((pd, pd.DataFrame(rows1)), (minipd.MiniPDModule, minipd.DataFrame(rows1))):
                a, b = os.path.join(tmp, wname), os.path.join(tmp, rname)
                frame.to_pickle(a)
                if a != b:
                    (os.replace if lib is pd else fs.replace)(a, b)
                try:
                    lib.read_pickle(b)
                    outs.append("ok")
                except Exception:  # noqa
                    outs.append("exc")
            n += 1
            if outs[0] != outs[1]:
                return n, "to_pickle(%s) -> read_pickle(%s): pandas %s, MiniPD %s" % (wname, rname, outs[0], outs[1])
    finally:
        minixr._FS[0] = old_fs
        shutil.rmtree(tmp, ignore_errors=True)
    return n, None


def run_all(which=("minixr", "fakefs", "random", "pickle", "minipd")):
    total = 0
    for w in which:
        n, bad = {"minixr": check_minixr, "fakefs": check_fakefs, "random": check_random,
                  "pickle": check_pickle_prefix, "minipd": check_minipd}[w]()
        total += n
        if bad:
            return total, "%s: %s" % (w, bad)
    return total, None


if __name__ == "__main__":
    import time

    t = time.time()
    n, bad = run_all()
    print("conformance: %d comparisons, %s (%.1fs)" % (n, bad or "all agree", time.time() - t))
    sys.exit(2 if bad else 0)
