"""MiniPD: rows-as-dicts model of the part of pandas that xyzpy calls."""
from . import minixr


class DataFrame:
    def __init__(self, data=None):
        self.rows = []
        if isinstance(data, dict):
            cols = list(data)
            n = len(data[cols[0]]) if cols else 0
            for i in range(n):
                self.rows.append({c: data[c][i] for c in cols})
        elif data is not None:
            for r in data:
                self.rows.append(dict(r))

    @property
    def columns(self):
        out = []
        for r in self.rows:
            for c in r:
                if c not in out:
                    out.append(c)
        return out

    def __len__(self):
        return len(self.rows)

    def copy(self, deep=True):
        return DataFrame(self.rows)

    def to_dict(self, orient="records"):
        return [dict(r) for r in self.rows]

    def equals(self, other):
        return isinstance(other, DataFrame) and self.rows == other.rows

    def to_pickle(self, name, compression="infer", **kw):
        minixr._FS[0].put(name, ("DFPICKLE", _compression(name, compression), self.copy()))

    def to_csv(self, name, index=True, compression="infer", **kw):
        minixr._FS[0].put(name, ("DFCSV", _compression(name, compression), bool(index), self.copy()))


def _compression(name, compression="infer"):
    """pandas infers the compression from the END of the file name, when writing and when reading"""
    if compression != "infer":
        return compression
    for ext, c in ((".gz", "gzip"), (".bz2", "bz2"), (".zip", "zip"), (".xz", "xz"), (".zst", "zstd"),
                   (".tar", "tar")):
        if str(name).endswith(ext):
            return c
    return None


def concat(frames, ignore_index=False, sort=False):
    out = DataFrame()
    for f in frames:
        out.rows.extend(dict(r) for r in f.rows)
    return out


def _read(kind):
    def read(name, compression="infer", **kw):
        obj = minixr._FS[0].get(name)
        if not (isinstance(obj, tuple) and obj and obj[0] == kind):
            raise OSError("not a %s file: %r" % (kind, name))
        if obj[1] != _compression(name, compression):
            # written with one compression, read with another (e.g. written under a temporary name with another
            # ending and renamed): BadGzipFile / UnpicklingError / UnicodeDecodeError ... in pandas
            raise OSError("cannot read %r: stored with compression %r" % (name, obj[1]))
        return obj[-1].copy()

    return read


class MiniPDModule:
    DataFrame = DataFrame
    concat = staticmethod(concat)
    read_pickle = staticmethod(_read("DFPICKLE"))
    read_csv = staticmethod(_read("DFCSV"))
