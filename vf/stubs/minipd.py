"""MiniPD: rows-as-dicts model of the part of pandas that xyzpy calls."""
from . import minixr


class DataFrame:
    def __init__(self, data=None):
        self.rows = []
        if isinstance(data, dict):
            cols = list(data)
            n = len(data[cols[0]]) if cols else 0
            for i in range(n):
                self.rows.append({c: data[c][i] for c in cols})
        elif data is not None:
            for r in data:
                self.rows.append(dict(r))

    @property
    def columns(self):
        out = []
        for r in self.rows:
            for c in r:
                if c not in out:
                    out.append(c)
        return out

    def __len__(self):
        return len(self.rows)

    def copy(self, deep=True):
        return DataFrame(self.rows)

    def to_dict(self, orient="records"):
        return [dict(r) for r in self.rows]

    def equals(self, other):
        return isinstance(other, DataFrame) and self.rows == other.rows

    def to_pickle(self, name, **kw):
        minixr._FS[0].put(name, ("DFPICKLE", self.copy()))

    def to_csv(self, name, index=True, **kw):
        minixr._FS[0].put(name, ("DFCSV", bool(index), self.copy()))


def concat(frames, ignore_index=False, sort=False):
    out = DataFrame()
    for f in frames:
        out.rows.extend(dict(r) for r in f.rows)
    return out


def _read(kind):
    def read(name, **kw):
        obj = minixr._FS[0].get(name)
        if not (isinstance(obj, tuple) and obj and obj[0] == kind):
            raise OSError("not a %s file: %r" % (kind, name))
        return obj[-1].copy()

    return read


class MiniPDModule:
    DataFrame = DataFrame
    concat = staticmethod(concat)
    read_pickle = staticmethod(_read("DFPICKLE"))
    read_csv = staticmethod(_read("DFCSV"))
