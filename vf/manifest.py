"""Regenerate /verif/MANIFEST.json from the table below:  python -m vf.manifest"""
import json
import os

from .common import VERIF

BASE_OFF = ("cd /repo && /venv/bin/python -m pytest -ra -q -p no:cacheprovider --timeout=900 "
            "--continue-on-collection-errors")

A_NOTE = ("Trusted base: CrossHair 0.0.110's symbolic interpreter and z3; the environment stubs listed in the "
          "evidence file's assumptions (each conformance-checked against the real library on concrete inputs); "
          "bounds are those stated per condition in the evidence; nothing outside them is claimed.")

CLAIMS = {
    "C01": dict(
        engine="A", category="model_checking", design_ref="DESIGN.md 5/C01",
        technique="CrossHair symbolic execution of the real combo_runner with z3 deciding every branch "
                  "(grid values, payloads, shuffle permutation and pool completion order are solver variables)",
        text="Bounded symbolic model checking of the real combo_runner/combo_runner_core/_unflatten/_submit code: "
             "for every grid shape within the bounds, symbolic grid values and payloads, every shuffle permutation "
             "(N<=5 quick, N=6 thorough) and every completion order of the three executor flavours, each combination "
             "is called exactly once and its result sits in its own slot.  'Confirmed over all paths' per condition; "
             "counterexamples are replayed on the real random module before being reported."),
    "C04": dict(
        engine="A", category="model_checking", design_ref="DESIGN.md 5/C04",
        technique="CrossHair symbolic execution of the real Crop/Sower/Reaper/grow code on an in-memory file system; "
                  "batching parameters, shuffle placement/permutation, grow order/grouping and session flags are "
                  "solver variables",
        text="Bounded symbolic model checking of the real sow/grow/reap pipeline against the direct run, one "
             "dimension at a time (batching for N<=6 quick / N<=10 thorough, every shuffle permutation of N<=4, every "
             "order and grouping of B<=3 (4) batches, fresh Crop objects between steps, the real pickling library "
             "lookup).  Counterexamples are replayed on a real temp directory with the real random module."),
    "C07": dict(
        engine="A", category="model_checking", design_ref="DESIGN.md 5/C07",
        engine_override="AB",
        technique="source-to-SMT (pyz3): choose_batch_settings + Sower translated from the AST to z3 Int terms, "
                  "request symbolic over all integers, n concrete per query (n<=16 quick, <=48 thorough), negated "
                  "obligations unsat per path; plus CrossHair symbolic execution of the real sow on FakeFS comparing "
                  "batch files with the direct run's call log",
        text="For every (N<=6 quick / <=10 thorough, batchsize|num_batches|neither), grids, case lists and cases x "
             "sub-grid, with and without farmer constants/resources and under every shuffle permutation of N<=4: the "
             "batch files partition the direct run's settings exactly, sizes honour the request, and the crop reports "
             "the same numbers after a reload."),
    "C08": dict(
        engine="A", category="model_checking", design_ref="DESIGN.md 5/C08",
        technique="CrossHair, inductive step: arbitrary valid crop state (solver-chosen finished subset) + one "
                  "solver-chosen operation, four progress queries compared with a ghost set",
        text="One-step induction over a stated representation invariant: from every crop state with B<=3 (4) batches "
             "and any finished subset, each of ten operations (re-sow, grow, grow subset, grow_missing, failing grow, "
             "delete, two kinds of corruption + check_bad, reload, healthy check_bad) leaves num_results, "
             "num_sown_batches, missing_results, is_ready_to_reap, str(crop) and the result files equal to the ghost "
             "state; plus all histories of length 2 (3) from the empty state."),
    "C09": dict(
        engine="A", category="model_checking", design_ref="DESIGN.md 5/C09",
        technique="CrossHair symbolic execution of the real allow_incomplete reap for every solver-chosen subset of "
                  "finished batches and every (N, batching) with and without remainder",
        text="Every non-empty proper subset of finished batches for N<=5 (7 thorough) x batchsize/num_batches 1..N, "
             "result kinds number/tuple/bool/str, clean_up settings, shuffled sowing and cases x sub-grid: finished "
             "positions exact, others the placeholder, nothing deleted by default, later full reap exact, refusal "
             "without allow_incomplete leaves the crop untouched."),
    "C12": dict(
        engine="A", category="model_checking", design_ref="DESIGN.md 5/C12",
        technique="CrossHair symbolic execution of the real reap paths with solver-chosen clean_up/allow_incomplete/"
                  "wait and failure stage, followed by the corrected retry",
        text="All combinations of clean_up x allow_incomplete x wait x failure stage on raw crops (farmer kinds to "
             "follow): the crop directory survives every reap that raises and every reap whose effective clean_up "
             "is false; the corrected retry returns exactly the direct-run result."),
    "C19": dict(
        engine="A", engine_override="AB", category="other", design_ref="DESIGN.md 5/C19",
        technique="source-to-SMT (pyz3) of the Welford updates over z3 Reals: closed-form identities unsat-checked "
                  "per K; converged() inequality with sqrt as fresh root; CrossHair on the real estimate_from_repeats "
                  "loop with converged as a solver-chosen oracle",
        text="PARTIAL claim. Decided: (i) over the reals, after K samples (every K<=40 and K=100 quick; K<=120, 250, "
             "500 thorough) count, mean, M2/var, covariance C and every covariance-matrix entry equal the whole-sample "
             "closed forms, which are symmetric, hence independent of chunking and order; (ii) converged(rtol, atol) "
             "<=> err < rtol*|mean| + atol; (iii) the real estimate_from_repeats loop never exceeds max_samples, "
             "reports exactly the samples drawn, and stops early only at a count where convergence was reported.  "
             "NOT decided: floating-point accuracy on ill-conditioned data (QF_FP queries are out of reach); a "
             "regression to an algebraically identical but unstable formula is not detected.",
        note="Trusted base: pyz3 translator (validated against the real classes on concrete vectors on every run), "
             "z3 nonlinear real arithmetic, CrossHair; reals stand in for binary64."),
    "C20": dict(
        engine="B", category="model_checking", design_ref="DESIGN.md 5/C20",
        technique="source-to-SMT (pyz3): format_number_with_error translated from the AST to z3 Real/Int terms, one "
                  "unsat query per path per pair of decade classes (unbounded real mantissas), cvc5 cross-check, "
                  "witnesses replayed on the real function through an independent reader",
        text="For every decade class 10^a<=|x|<10^(a+1), 10^b<=err<10^(b+1) with a in [-6,6] (quick) / [-30,30] "
             "(thorough), b-a in [-13,13], both signs, and x=0: on every path of the translated source the output "
             "denotes (by the bracket convention) the error rounded to two significant figures and the value rounded "
             "to the same last digit.  Every rounding boundary lies inside a query (mantissas are unbounded reals).",
        note="Trusted base: pyz3 translator and its primitive models of float formatting (validated against the real "
             "function on ~700 concrete inputs on every run), z3 (sample of queries re-decided by cvc5); binary64 "
             "divisions modelled as exact (<=1 ulp, only matters at rounding ties)."),
}

NOT_APPLICABLE = {
    "C17": "statement about matplotlib artists built from xarray selections/numpy masks: none of it can be executed "
           "symbolically (xarray/numpy abort under CrossHair; matplotlib is a C/Agg stack) and stubbing all three "
           "leaves nothing of the behaviour in question",
    "C18": "same as C17: infiniplot is a chain of xarray stack/sel/dropna and matplotlib Axes.plot calls on numpy "
           "arrays; no encodable kernel carries the property",
}


def build():
    checks = []
    for pid in sorted(CLAIMS):
        c = CLAIMS[pid]
        checks.append({
            "property_id": pid,
            "quick_cmd": "./check %s --tier quick" % pid,
            "thorough_cmd": "./check %s --tier thorough" % pid,
            "evidence_file": "evidence/%s.json" % pid,
            "replay_cmd_template": "./check %s --replay {path}" % pid,
            "engine": {"A": "engine_a", "B": "engine_b", "AB": "engine_a+engine_b"}[c.get("engine_override", c["engine"])],
            "level_claimed": {"category": c["category"], "text": c["text"], "design_ref": c["design_ref"]},
            "level_note": c.get("note", A_NOTE),
            "technique": c["technique"],
        })
    allp = ["C%02d" % i for i in range(1, 21)]
    na = []
    for pid in allp:
        if pid in CLAIMS:
            continue
        reason = NOT_APPLICABLE.get(pid, "check not built yet (work in progress): no claim is made for this property")
        na.append({"property_id": pid, "reason": reason})
    man = {
        "version": 1,
        "setup_cmd": "./setup.sh",
        "hooks": {
            "guard": "XYZPY_VERIF",
            "enable": "no source hooks are used: all instrumentation is done by assigning module globals of the "
                      "xyzpy modules from the harness process (guard name reserved, unused)",
            "baseline_off_cmd": BASE_OFF,
            "source_commits": [],
            "add_only": True,
        },
        "engines": [
            {"name": "engine_a", "path": "vf/engine_a.py",
             "serves_properties": [p for p in sorted(CLAIMS) if "A" in CLAIMS[p]["engine"]],
             "kind_free_text": "CrossHair (symbolic execution of the real Python functions, z3 per branch) over "
                               "harnesses in vf/harness with environment stubs patched into module globals"},
            {"name": "engine_b", "path": "vf/engine_b/pyz3.py",
             "serves_properties": [p for p in sorted(CLAIMS)
                                   if "B" in CLAIMS[p].get("engine_override", CLAIMS[p]["engine"])],
             "kind_free_text": "source-to-SMT: AST of numeric kernels re-read from /repo, translated to z3 Int/Real "
                               "terms, negated property must be unsat per class; cvc5 cross-check"},
        ],
        "checks": checks,
        "not_applicable": na,
        "notes": "Exit codes: 0 held on everything explored (INCONCLUSIVE lines mark budgets that ran out), "
                 "1 reproduced VIOLATION, 2 harness/encoding error (nothing claimed).  See DESIGN.md.",
    }
    with open(os.path.join(VERIF, "MANIFEST.json"), "w") as f:
        json.dump(man, f, indent=1)
    return man


if __name__ == "__main__":
    m = build()
    print("claimed:", [c["property_id"] for c in m["checks"]])
