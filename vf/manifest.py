"""Regenerate /verif/MANIFEST.json from the table below:  python -m vf.manifest"""
import json
import os

from .common import VERIF

BASE_OFF = ("cd /repo && /venv/bin/python -m pytest -ra -q -p no:cacheprovider --timeout=900 "
            "--continue-on-collection-errors")

A_NOTE = ("Trusted base: CrossHair 0.0.110's symbolic interpreter and z3; the environment stubs listed in the "
          "evidence file's assumptions (each conformance-checked against the real library on concrete inputs); "
          "bounds are those stated per condition in the evidence; nothing outside them is claimed.")

CLAIMS = {
    "C01": dict(
        engine="A", category="model_checking", design_ref="DESIGN.md 5/C01",
        technique="CrossHair symbolic execution of the real combo_runner with z3 deciding every branch "
                  "(grid values, payloads, shuffle permutation and pool completion order are solver variables)",
        text="Bounded symbolic model checking of the real combo_runner/combo_runner_core/_unflatten/_submit code: "
             "for every grid shape within the bounds, symbolic grid values and payloads, every shuffle permutation "
             "(N<=5 quick, N=6 thorough) and every completion order of the three executor flavours, each combination "
             "is called exactly once and its result sits in its own slot; also 33 / 40 / 65 tasks through each "
             "executor flavour (size thresholds) and two successive sweeps over equal-but-differently-typed grids "
             "(state kept between sweeps; decided by the plain run of the instance).  'Confirmed over all paths' per condition; "
             "counterexamples are replayed on the real random module before being reported."),
    "C02": dict(
        engine="A", category="model_checking", design_ref="DESIGN.md 5/C02",
        technique="CrossHair symbolic execution of the real combo_runner(cases=...) / case_runner / "
                  "combo_runner_core / nan_like_result code; the ordered selection of cases, result kind, spelling, "
                  "sub-grid, shuffle permutation and payload are solver variables",
        text="Every ordered selection of 1-3 (4 thorough) distinct cases from a 6-point pool, five result kinds, "
             "dict/tuple spelling, nested/flat, combo_runner and case_runner entry points, sub-grids on a further "
             "argument, every shuffle permutation of <=4 cases: the function is called exactly once per requested "
             "setting and never otherwise, the grid spans the sorted per-argument union, requested slots hold their "
             "payload, all others the correctly shaped placeholder (for dict-valued results: a Dataset with every "
             "variable null); argument values of mixed int/float type and tuple-valued argument values; cases "
             "given as a one-shot iterator; an argument "
             "in both cases and combos is rejected before any call."),
    "C03": dict(
        engine="A", category="model_checking", design_ref="DESIGN.md 5/C03",
        technique="CrossHair symbolic execution of the real combo_runner_to_ds / case_runner_to_ds / results_to_ds / "
                  "results_to_df / parse_var_* / Runner / label code over a conformance-checked pure-Python model of "
                  "xarray and pandas; payloads, constant, spellings, shuffle permutation are solver variables",
        text="Bounded symbolic model checking of the labelling logic: for grids up to 3x2 and case sets up to 4 "
             "points, 1-2 output variables with optional internal dimension, five spellings of the output "
             "description, constants that are / are not dimensions, resources, attrs, three entry points, and every "
             "shuffle permutation (Dataset N<=4, DataFrame N<=5), outputs returned as tuple or list, case values of "
             "mixed int/float type: dims, coords, every labelled cell, attrs and every DataFrame row are as the "
             "property states."),
    "C05": dict(
        engine="A", category="model_checking", design_ref="DESIGN.md 5/C05",
        technique="CrossHair symbolic execution of the real Harvester / save_ds / load_ds / save_merge_ds code over "
                  "MiniXR + FakeFS against a cell-level ghost oracle; cell presence/NaN/value, policies, sessions, "
                  "name spelling, engine are solver variables; one-step inductive form in the thorough tier",
        text="Histories of two operations (add_ds / harvest_combos / harvest_cases / save_merge_ds, plus "
             "expand_dims / drop_sel) over 3 coordinates x 1 variable with every cell pattern, the three overwrite "
             "policies, data names with and without extension, h5netcdf|joblib, new Harvester objects, sync off: "
             "memory = disk = policy(ghost); conflicts raise and change nothing; holes in the grid, aliasing of "
             "the caller's Dataset and two live Harvester objects on one file (adds, and a drop_sel through either "
             "object); unsynced adds before the data file exists followed by a synced one.  Thorough: one-step induction "
             "from an arbitrary consistent state, split by policy and operation."),
    "C06": dict(
        engine="A", category="model_checking", design_ref="DESIGN.md 5/C06",
        technique="CrossHair symbolic execution of the real farmer-attached crop code (Runner/Harvester/Sampler.Crop, "
                  "reap_runner/reap_harvest/reap_samples) compared with the direct run over MiniXR/MiniPD/FakeFS",
        text="Runner crops (grids <=2x2, case subsets, 1-2 variables, internal dimension, constant as dimension, "
             "resource, attr, all batchings, sow-time shuffle permutations, reload by name), Harvester crops (earlier "
             "equal/conflicting data x three policies) and Sampler crops (same drawn indices) deliver what the direct "
             "run delivers: same Dataset / table in memory, on disk and as last result; also after a re-sow of a grown "
             "crop with other values, with a constant given again (other value) at sow time, with a per-call combos "
             "override of the sampling space, and with another "
             "process merging into the harvester's file between sow and reap."),
    "C10": dict(
        engine="A", category="fault_enumeration", design_ref="DESIGN.md 5/C10",
        technique="CrossHair over a step-level file-system model (StepFS): the kill instant is a solver variable "
                  "(crash budget over every file-system mutation step of sow / re-sow / grow / grow_missing / reap for "
                  "raw, Runner, Harvester and Sampler crops); counterexamples replayed on the real disk with the same "
                  "step counter",
        text="Solver-enumerated crash points: for every kill instant of every phase on 2-batch crops (K=2 chunks per "
             "file; thorough: second kill during recovery, both rmtree orders): a fresh process's reap refuses or is "
             "exact, the documented recovery reaches the direct-run result, data already in a harvester file or "
             "sampler table survives; writes buffered until close, recovery under another pid, a harvester that "
             "sowed with data in memory while another process merged into its file, crops sown by batch count "
             "(remainder), an interrupted first sow followed by sowing other values under the same name.  One known "
             "finding (sampler duplicate-on-retry window) is listed and probed."),
    "C11": dict(
        engine="A", category="model_checking", design_ref="DESIGN.md 5/C11",
        technique="CrossHair over StepFS timelines: each file's visible state is a solver-chosen monotone position "
                  "in the sequence of states its grower produces, advanced before every observation of the reaper / "
                  "poller (all interleavings up to partial-order equivalence for writers of distinct files); "
                  "counterexample schedules replayed with real threads on the real disk",
        text="1-2 concurrent growers (K=2; thorough K=3) and a reap(wait=True) or a progress poller: for every "
             "placement of the reader's observations relative to the writers' steps the reaper returns exactly the "
             "direct-run result and progress queries never count a partly written result.  Writes are either "
             "visible at once or buffered until a solver-chosen later step (at the latest close); the same batch "
             "grown by two growers at once and grown again after it finished are explored as well, and "
             "reap(wait=True, allow_incomplete=True) with either of two batches finished and the other being "
             "grown.  Replays gate real grower threads step by step, steps on temporary files included."),
    "C13": dict(
        engine="A", category="model_checking", design_ref="DESIGN.md 5/C13",
        technique="CrossHair symbolic execution of the real is_case_missing / find_missing_cases / parse_into_cases "
                  "over MiniXR with each cell's null kind a solver variable (null tests stay symbolic: one z3 term "
                  "per location)",
        text="Datasets with <= 6 locations, 1-2 variables, optional internal dimension (ignored or not), every "
             "finite/NaN/inf pattern, both null criteria, requested combos/cases incl. absent labels, and the "
             "find -> harvest -> find loop, dimensions named like options of Dataset.sel ('tolerance', 'drop', "
             "'method'), a variable spanning only some of the parameter dimensions: exactly the all-null "
             "locations are reported, in grid order."),
    "C14": dict(
        engine="A", category="other", design_ref="DESIGN.md 5/C14",
        technique="CrossHair symbolic execution of the real auto_add_extension / save_ds / load_ds / save_merge_ds / "
                  "Harvester file methods with the file name a symbolic str (z3 strings) and recording back ends",
        text="PARTIAL claim: (i) one file name used by saving, loading, merging and the Harvester's load/save/delete "
             "for every name of length <=5 (7 thorough) and engine; (ii) the extension rule; (iii) attribute "
             "rewriting exactly for None/True/False and netCDF engines; (iv) invalid_netcdf for complex data; (v) "
             "chunks / load_to_mem handling; (vi) on the dataset model: save -> load gives the same dims / values / "
             "attributes and the loaded dataset does not change when the file is re-written.  NOT decided: that h5netcdf / joblib read back the same dims, coords, "
             "values, NaNs, complex numbers (C libraries behind a file).",
        note="Trusted base: CrossHair + z3 string theory; back ends are recording stubs."),
    "C15": dict(
        engine="A", category="model_checking", design_ref="DESIGN.md 5/C15",
        technique="CrossHair symbolic execution of the real Sampler code (sample_combos, add_df, save/load, "
                  "sow_samples/grow/reap) over MiniPD + FakeFS with the drawn indices solver-chosen",
        text="Two-run histories (n<=2) with combos override, direct or through a crop, fresh Sampler objects, "
             "pickle|csv, shuffle: exactly n rows appended, earlier rows unchanged, rows pair drawn arguments with the "
             "function's value, disk = memory, a new sampler continues; two live Sampler objects on one file, a "
             "crop reused for a second run, generator-valued combos, a batch grown with worker processes, table "
             "names with a compression suffix (.pkl.gz / .csv.gz)."),
    "C16": dict(
        engine="A", category="other", design_ref="DESIGN.md 5/C16",
        technique="CrossHair symbolic execution of the real gen_cluster_script + the generated Python program "
                  "(compiled from the here-document) with the array task index a solver variable",
        text="PARTIAL claim (Python side): for SGE/PBS/SLURM x array/single x every finished subset and every "
             "requested id subset of crops with B<=3 (4) batches x every task index of the header range, the embedded "
             "program is valid Python and grows exactly the intended batch (order-preserving bijection), after which "
             "the crop is ready with exact results (batches of two settings grown with num_workers when the script "
             "asks for workers; crops given by a relative parent directory with the job started elsewhere and the "
             "script's cd honoured); the CLI grows exactly the missing batches.  NOT decided: bash "
             "itself.",
        note="Trusted base: CrossHair; the shell is modelled as substitution of the task variable in an unquoted "
             "here-document."),
    "C04": dict(
        engine="A", category="model_checking", design_ref="DESIGN.md 5/C04",
        technique="CrossHair symbolic execution of the real Crop/Sower/Reaper/grow code on an in-memory file system; "
                  "batching parameters, shuffle placement/permutation, grow order/grouping and session flags are "
                  "solver variables",
        text="Bounded symbolic model checking of the real sow/grow/reap pipeline against the direct run, one "
             "dimension at a time (batching for N<=6 quick / N<=10 thorough, every shuffle permutation of N<=4, every "
             "order and grouping of B<=3 (4) batches, fresh Crop objects between steps, the real pickling library "
             "lookup, the same crop name reused for a second function in one process, arguments spelled in "
             "non-alphabetical order, ten batches reaped with wait=True).  Counterexamples are replayed "
             "on a real temp directory with the real random module."),
    "C07": dict(
        engine="A", category="model_checking", design_ref="DESIGN.md 5/C07",
        engine_override="AB",
        technique="source-to-SMT (pyz3): choose_batch_settings + Sower translated from the AST to z3 Int terms, "
                  "request symbolic over all integers, n concrete per query (n<=16 quick, <=48 thorough), negated "
                  "obligations unsat per path; plus CrossHair symbolic execution of the real sow on FakeFS comparing "
                  "batch files with the direct run's call log",
        text="For every (N<=6 quick / <=10 thorough, batchsize|num_batches|neither), grids, case lists and cases x "
             "sub-grid, with and without farmer constants/resources and under every shuffle permutation of N<=4: the "
             "batch files partition the direct run's settings exactly, sizes honour the request, and the crop reports "
             "the same numbers after a reload; also one case given as a bare dict crossed with a sub-grid, "
             "sow_cases with a dict sub-grid, and a directory started over with another batching."),
    "C08": dict(
        engine="A", category="model_checking", design_ref="DESIGN.md 5/C08",
        technique="CrossHair, inductive step: arbitrary valid crop state (solver-chosen finished subset) + one "
                  "solver-chosen operation, four progress queries compared with a ghost set",
        text="One-step induction over a stated representation invariant: from every crop state with B<=3 (4) batches "
             "and any finished subset, each of ten operations (re-sow, grow, grow subset, grow_missing, failing grow, "
             "delete, two kinds of corruption + check_bad, reload, healthy check_bad) leaves num_results, "
             "num_sown_batches, missing_results, is_ready_to_reap, str(crop) and the result files equal to the ghost "
             "state (a grow of the empty subset / grow_missing with nothing missing evaluates nothing); plus all "
             "histories of length 2 (3) from the empty state (not ready while nothing is on disk), batch-count crops "
             "with a remainder sown again with the same shape, and a grow that fails inside "
             "pickle.dump on the real write_to_disk (step-level file system)."),
    "C09": dict(
        engine="A", category="model_checking", design_ref="DESIGN.md 5/C09",
        technique="CrossHair symbolic execution of the real allow_incomplete reap for every solver-chosen subset of "
                  "finished batches and every (N, batching) with and without remainder",
        text="Every non-empty proper subset of finished batches for N<=5 (7 thorough) x batchsize/num_batches 1..N, "
             "result kinds number/tuple/bool/str, clean_up settings, shuffled sowing and cases x sub-grid: finished "
             "positions exact, others the placeholder, nothing deleted by default, later full reap exact, refusal "
             "without allow_incomplete leaves the crop untouched."),
    "C12": dict(
        engine="A", category="model_checking", design_ref="DESIGN.md 5/C12",
        technique="CrossHair symbolic execution of the real reap paths with solver-chosen clean_up/allow_incomplete/"
                  "wait and failure stage, followed by the corrected retry",
        text="All combinations of clean_up x allow_incomplete x wait x failure stage (result missing, cut short, "
             "zero bytes, over-long) on raw crops, and farmer kinds "
             "(Runner/Harvester/Sampler) x failure stage (too many / too few var_names, merge conflict, failing save), "
             "with a grown, un-reaped sibling crop whose name starts with the reaped crop's name: the crop "
             "directory survives every reap that raises and every reap whose effective clean_up "
             "is false; the corrected retry returns exactly the direct-run result; the sibling crop is untouched and "
             "still reaps exactly."),
    "C19": dict(
        engine="A", engine_override="AB", category="other", design_ref="DESIGN.md 5/C19",
        technique="source-to-SMT (pyz3) of the Welford updates over z3 Reals: closed-form identities unsat-checked "
                  "per K (also with the statistics / matrices read between chunks); the same source interpreted over "
                  "z3 Float64 terms (QF_FP + bit-vectors) for an accuracy bound on lattice inputs; converged() "
                  "inequality with sqrt as fresh root; CrossHair on the real estimate_from_repeats loop with "
                  "converged as a solver-chosen oracle",
        text="PARTIAL claim. Decided: (i) over the reals, after K samples (every K<=40 and K=100 quick; K<=120, 250, "
             "500 thorough) count, mean, M2/var, covariance C and every covariance-matrix entry equal the whole-sample "
             "closed forms, which are symmetric, hence independent of chunking and order; (ii) converged(rtol, atol) "
             "<=> err < rtol*|mean| + atol; (iii) the real estimate_from_repeats loop never exceeds max_samples, "
             "reports exactly the samples drawn, and stops early only at a count where convergence was reported.  "
             "(iv) in binary64, round-to-nearest-even, for every K=2 (thorough: K=3) sequence of lattice inputs "
             "c + 2^-10*t (offset c = 1e9 or 1, t a 5-6 bit integer): |M2 - exact| <= 8*u*K*xmax*(R + u*xmax), "
             "|mean - exact| <= 8*u*xmax, likewise var and the covariance accumulator - a bound Welford meets and a "
             "sum-of-squares formula misses by a factor xmax/R.  NOT decided: floating-point accuracy for longer "
             "sequences, off-lattice inputs, or the matrix class.",
        note="Trusted base: pyz3 translator (validated against the real classes on concrete vectors on every run, "
             "bit-exactly in IEEE mode), z3 nonlinear real arithmetic and floating-point theory, CrossHair."),
    "C20": dict(
        engine="B", category="model_checking", design_ref="DESIGN.md 5/C20",
        technique="source-to-SMT (pyz3): format_number_with_error translated from the AST to z3 Real/Int terms, one "
                  "unsat query per path per pair of decade classes (unbounded real mantissas), cvc5 cross-check, "
                  "witnesses replayed on the real function through an independent reader",
        text="For every decade class 10^a<=|x|<10^(a+1), 10^b<=err<10^(b+1) with a in [-6,6] (quick) / [-30,30] "
             "(thorough), b-a in [-13,13], both signs, and x=0: on every path of the translated source the output "
             "denotes (by the bracket convention) the error rounded to two significant figures and the value rounded "
             "to the same last digit.  Every rounding boundary lies inside a query (mantissas are unbounded reals).",
        note="Trusted base: pyz3 translator and its primitive models of float formatting (validated against the real "
             "function on ~700 concrete inputs on every run), z3 (sample of queries re-decided by cvc5); binary64 "
             "divisions modelled as exact (<=1 ulp, only matters at rounding ties)."),
}

NOT_APPLICABLE = {
    "C17": "statement about matplotlib artists built from xarray selections/numpy masks: none of it can be executed "
           "symbolically (xarray/numpy abort under CrossHair; matplotlib is a C/Agg stack) and stubbing all three "
           "leaves nothing of the behaviour in question",
    "C18": "same as C17: infiniplot is a chain of xarray stack/sel/dropna and matplotlib Axes.plot calls on numpy "
           "arrays; no encodable kernel carries the property",
}


def build():
    checks = []
    for pid in sorted(CLAIMS):
        c = CLAIMS[pid]
        checks.append({
            "property_id": pid,
            "quick_cmd": "./check %s --tier quick" % pid,
            "thorough_cmd": "./check %s --tier thorough" % pid,
            "evidence_file": "evidence/%s.json" % pid,
            "replay_cmd_template": "./check %s --replay {path}" % pid,
            "engine": {"A": "engine_a", "B": "engine_b", "AB": "engine_a+engine_b"}[c.get("engine_override", c["engine"])],
            "level_claimed": {"category": c["category"], "text": c["text"], "design_ref": c["design_ref"]},
            "level_note": c.get("note", A_NOTE),
            "technique": c["technique"],
        })
    allp = ["C%02d" % i for i in range(1, 21)]
    na = []
    for pid in allp:
        if pid in CLAIMS:
            continue
        reason = NOT_APPLICABLE.get(pid, "check not built yet (work in progress): no claim is made for this property")
        na.append({"property_id": pid, "reason": reason})
    man = {
        "version": 1,
        "setup_cmd": "./setup.sh",
        "hooks": {
            "guard": "XYZPY_VERIF",
            "enable": "no source hooks are used: all instrumentation is done by assigning module globals of the "
                      "xyzpy modules from the harness process (guard name reserved, unused)",
            "baseline_off_cmd": BASE_OFF,
            "source_commits": [],
            "add_only": True,
        },
        "engines": [
            {"name": "engine_a", "path": "vf/engine_a.py",
             "serves_properties": [p for p in sorted(CLAIMS) if "A" in CLAIMS[p]["engine"]],
             "kind_free_text": "CrossHair (symbolic execution of the real Python functions, z3 per branch) over "
                               "harnesses in vf/harness with environment stubs patched into module globals"},
            {"name": "engine_b", "path": "vf/engine_b/pyz3.py",
             "serves_properties": [p for p in sorted(CLAIMS)
                                   if "B" in CLAIMS[p].get("engine_override", CLAIMS[p]["engine"])],
             "kind_free_text": "source-to-SMT: AST of numeric kernels re-read from /repo, translated to z3 Int/Real "
                               "terms, negated property must be unsat per class; cvc5 cross-check"},
        ],
        "checks": checks,
        "not_applicable": na,
        "notes": "Exit codes: 0 held on everything explored (INCONCLUSIVE lines mark budgets that ran out), "
                 "1 reproduced VIOLATION, 2 harness/encoding error (nothing claimed).  See DESIGN.md.",
    }
    with open(os.path.join(VERIF, "MANIFEST.json"), "w") as f:
        json.dump(man, f, indent=1)
    return man


if __name__ == "__main__":
    m = build()
    print("claimed:", [c["property_id"] for c in m["checks"]])
