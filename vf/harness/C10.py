"""C10 - killing a worker at any instant never corrupts what is later reaped.

The crash instant is a solver variable: StepFS numbers every file-system mutation (create /
truncate, each chunk write, replace, remove, each rmtree entry, the removal and rewrite of a
harvester or sampler file) and a crash budget c kills the process (Crash, a BaseException) at
step c+1 of the chosen phase.  From the surviving state a fresh process runs (i) a plain reap
(safety: refuses, or returns exactly the direct-run result) and (ii) the documented recovery
(re-sow iff the sown files are incomplete, check_bad, grow_missing, reap), optionally killed once
more (c2) and then run to completion; (iii) data merged into a harvester file before the crash
is still in it afterwards.

Real code executed: write_to_disk, read_from_disk, sow_combos/Sower, grow, Crop.grow,
grow_missing, reap*, delete_all, check_bad, Harvester.save_full_ds/add_ds, Sampler.save_full_df/
add_df, save_ds/save_df call sites.
"""
from ..common import Cond, concretize, cbool, done, HarnessError, make_cond, split_conds
from ..env import Env
from ..stubs.stepfs import Crash
from .cropkit import CROP_FUNCS, grid, mkfn, crop_dir
from .xrkit import fingerprint, same_fp, rows_of

import xyzpy.gen.cropping as cp
import xyzpy.gen.farming as fm
import xyzpy.manage as mg
from xyzpy.gen.combo_runner import combo_runner
from xyzpy.gen.farming import Runner, Harvester, Sampler

FUNCS = CROP_FUNCS + [fm.Harvester.save_full_ds, fm.Sampler.save_full_df]
CONFORMANCE = ("fakefs", "pickle", "minixr")
LEVEL = "fault_enumeration"
NO_REAL = ()

PHASES = {0: "sow", 1: "re-sow over a sown crop (batch 1 grown)", 2: "grow batch 2", 3: "grow_missing",
          4: "reap (raw crop)", 5: "reap (Runner crop)", 6: "reap (Harvester crop)", 7: "reap (Sampler crop)"}
N, BS = 3, 2           # 3 settings in batches of 2 -> 2 batches (sizes 2, 1)


def SYM(**kw):
    kw.setdefault("fs", "step")
    return Env("sym", **kw)


def REAL(**kw):
    kw.pop("fs", None)
    kw.pop("xr", None)
    kw.pop("pd", None)
    return Env("real", **kw)


class Sim:
    """both modes: crash budget on StepFS (sym) or on the real disk through RealSteps (real)"""

    def __init__(self, env, K):
        self.env = env
        if env.mode == "sym":
            env.fs.K = K
            self.rs = None
        else:
            from ..realsched import RealSteps

            self.rs = RealSteps(K)
            self.rs.install(env, cp)

    def set_budget(self, c):
        tgt = self.env.fs if self.rs is None else self.rs
        tgt.budget = c
        tgt.dead = False

    def clear(self):
        self.set_budget(None)

    def new_process(self):
        """whatever runs next is a different OS process (other pid => other temporary file names)"""
        self.nproc = getattr(self, "nproc", 0) + 1
        if self.rs is None:
            cp.os.pid = 4242 + self.nproc
        else:
            self.rs.pid_offset = self.nproc

    def buffered(self, flag):
        (self.env.fs if self.rs is None else self.rs).buffered = flag

    def rmtree_reverse(self, flag):
        if self.rs is None:
            self.env.fs.rmtree_reverse = flag
        else:
            self.rs.rmtree_reverse = flag


def run_killed(sim, c, what):
    """run `what()` with crash budget c; True if it was killed"""
    sim.set_budget(c)
    try:
        what()
        killed = False
    except Crash:
        killed = True
    finally:
        sim.clear()
    return killed


def recover(env, fn, combos, bk=None, force_sow=False):
    """the documented recovery, by a fresh process (force_sow: the user sows again whatever is there)"""
    bk = bk or dict(batchsize=BS)
    try:
        crop = cp.Crop(fn=fn, name="t", parent_dir=env.parent, **bk)
        need_sow = (not crop.is_prepared()) or crop.num_sown_batches != crop.num_batches
    except Exception:  # noqa  settings / function unreadable: sow again
        crop = cp.Crop(fn=fn, name="t", parent_dir=env.parent, autoload=False, **bk)
        need_sow = True
    if need_sow or force_sow:
        crop.sow_combos(combos, verbosity=0)
    crop.check_bad()
    if crop.missing_results():
        crop.grow_missing()
    return crop.reap()


def body_raw(E, phase, c, c2, rev, K, base, buf=False, nbm=False, alt=False):
    """nbm: the crop is sown by batch COUNT (num_batches=2 over 3 settings: sizes 2 and 1, a remainder)
    alt (phase 0 only): after the interrupted sow the user sows OTHER values of the same shape under the same
    name; what is reaped is the direct run over those, nothing of the interrupted sow survives"""
    bk = dict(num_batches=2) if cbool(nbm) else dict(batchsize=BS)
    phase = concretize(phase, 0, 4)
    K = concretize(K, 2, 3)
    c = concretize(c, 0, 40)
    c2 = concretize(c2, 0, 40)
    fn = mkfn(base)
    combos = grid(N)
    with E() as env:
        sim = Sim(env, K)
        sim.rmtree_reverse(cbool(rev))
        sim.buffered(cbool(buf))
        ref = combo_runner(fn, combos, verbosity=0)
        crop = cp.Crop(fn=fn, name="t", parent_dir=env.parent, **bk)
        if phase >= 1:
            crop.sow_combos(combos, verbosity=0)
        if phase in (1, 2):
            cp.grow(1, crop=crop, verbosity=0)
        if phase == 4:
            cp.grow(1, crop=crop, verbosity=0)
            cp.grow(2, crop=crop, verbosity=0)
        actions = {
            0: lambda: crop.sow_combos(combos, verbosity=0),
            1: lambda: cp.Crop(fn=fn, name="t", parent_dir=env.parent, **bk).sow_combos(combos, verbosity=0),
            2: lambda: cp.grow(2, crop=crop, verbosity=0),
            3: lambda: crop.grow_missing(),
            4: lambda: crop.reap(),
        }
        killed = run_killed(sim, c, actions[phase])
        sim.new_process()
        # (i) safety: a plain reap by a fresh process refuses or is exact
        try:
            out = cp.Crop(name="t", parent_dir=env.parent).reap(clean_up=False)
            if out != ref:
                return False
        except Exception:  # noqa
            pass
        # (ii) recovery, possibly killed once more, then run to completion
        out = [None]
        if cbool(alt) and phase == 0:
            combos = {k: [v + 50 for v in vs] for k, vs in combos.items()}
            ref = combo_runner(fn, combos, verbosity=0)

        def rec():
            out[0] = recover(env, fn, combos, bk, force_sow=cbool(alt))

        sim.new_process()
        if run_killed(sim, c2, rec):
            sim.new_process()
            rec()
        return out[0] == ref and not env.exists(crop_dir(env))


# ---------------------------------------------------------------------------
def FSYM(**kw):
    kw.setdefault("fs", "step")
    kw.setdefault("xr", True)
    kw.setdefault("pd", True)
    return Env("sym", **kw)


class DuplicatedRows(Exception):
    pass


def body_farmer(E, phase, c, K, base, window=False):
    """reap of a Runner / Harvester / Sampler crop killed at step c.

    Real mode (replay): the farming layer's steps are coarser on the real disk than on StepFS, so the
    replay asks the same question for every real crash instant of the phase and fails if any fails."""
    if E is REAL:
        for cc in range(0, 40):
            ok, killed = _farmer_once(E, phase, cc, K, base, window)
            if not ok:
                return False
            if not killed:
                break
        return True
    return _farmer_once(E, phase, c, K, base, window)[0]


def _farmer_once(E, phase, c, K, base, window=False):
    from .C15 import install_choice

    phase = concretize(phase, 5, 7)
    K = concretize(K, 2, 2)
    c = concretize(c, 0, 40)
    E2 = FSYM if E is SYM else E
    with E2() as env:
        if env.mode == "sym":
            env.fs.K = K
            ctl = env.fs
        else:
            from ..realsched import RealSteps, install_farming

            ctl = RealSteps(K)
            ctl.install(env, cp)
            install_farming(ctl, env, fm, mg)
        return _farmer_run(env, ctl, phase, c, base, install_choice, window)


def _farmer_run(env, ctl, phase, c, base, install_choice, window):
    if True:

        def fn(a, b=20):
            return base + 100 * a + b

        combos = {"a": [10, 11, 12]}
        dname, sname = env.parent + "/data.h5", env.parent + "/smp.pkl"

        def farmer():
            r = Runner(fn, "x")
            if phase == 5:
                return r
            if phase == 6:
                return Harvester(r, data_name=dname)
            return Sampler(r, data_name=sname, default_combos={"a": [10, 11], "b": [20]})

        old_cells = None
        f0 = None
        if phase == 6:
            # the harvester that sows already holds data in memory (it is pickled with the crop) ...
            f0 = farmer()
            f0.harvest_combos({"a": [7]}, verbosity=0)
        if phase == 7:
            install_choice(env, [0] * 12)
            farmer().sample_combos(1, verbosity=0)
            old_rows = rows_of(env, mg.load_df(sname))
            install_choice(env, [1, 0] * 6)
        if f0 is None:
            f0 = farmer()
        crop = f0.Crop(name="t", parent_dir=env.parent, batchsize=2)
        if phase == 7:
            crop.sow_samples(2, verbosity=0)
        else:
            crop.sow_combos(combos, verbosity=0)
        if phase == 6:
            # ... and another process merges a further point into the file between the sow and the reap
            farmer().harvest_combos({"a": [8]}, verbosity=0)
            old_cells = fingerprint(env, mg.load_ds(dname))["cells"]
        for i in range(1, crop.num_batches + 1):
            cp.grow(i, crop=crop, verbosity=0)

        ctl.budget = c
        try:
            crop.reap()
            killed = False
        except Crash:
            killed = True
        finally:
            ctl.budget = None
            ctl.dead = False

        # (iii) what had been saved before the crash is still there (and readable)
        if phase == 6:
            try:
                now = fingerprint(env, mg.load_ds(dname))["cells"]
            except Exception:  # noqa
                return (False), killed
            for k, v in old_cells.items():
                if k not in now or now[k] != v:
                    return (False), killed
        if phase == 7:
            try:
                now = rows_of(env, mg.load_df(sname))
            except Exception:  # noqa
                return (False), killed
            if now[:len(old_rows)] != old_rows:
                return (False), killed
        # recovery by a fresh process: reap again if the crop is still complete, else nothing to do
        f1 = farmer()
        c1 = f1.Crop(name="t", parent_dir=env.parent, batchsize=2)
        if phase == 6 and c1.is_prepared():
            try:
                c1 = cp.Crop(name="t", parent_dir=env.parent)      # the crop and its farmer as stored on disk
            except (OSError, EOFError):
                pass            # half-deleted crop: loading it by name refuses loudly, which the property allows
        delivered = None
        if c1.is_prepared():
            try:
                ready = c1.is_ready_to_reap()
            except Exception:  # noqa
                ready = False
            if ready and phase == 7 and killed and len(now) > len(old_rows) and not window:
                # KNOWN FINDING (probed by condition sampler_dup_window): the table was saved but the crop
                # is still complete, so reaping again appends the rows twice; excluded here
                return (True), killed
            if ready:
                delivered = c1.reap()
        if phase == 5:
            if not killed:
                return (True), killed
            # a Runner crop hands its data to the caller only: after a kill the caller either still has
            # a complete crop to reap from (exact result) or must re-sow; never a wrong dataset
            if delivered is None:
                return (True), killed
            ref = Runner(fn, "x").run_combos(combos, verbosity=0)
            return (same_fp(fingerprint(env, delivered), fingerprint(env, ref))), killed
        if phase == 6:
            final = fingerprint(env, mg.load_ds(dname))["cells"]
            want = dict(old_cells)
            for a in combos["a"]:
                want[("x", a)] = fn(a)
            if killed and delivered is None and not c1.is_prepared():
                # killed while deleting the crop: the data must already be in the file
                pass
            if delivered is None and c1.is_prepared() and killed:
                # crop half deleted: data must already have been saved (deletion only starts after the save)
                pass
            return (sorted(final, key=repr) == sorted(want, key=repr) and all(final[k] == want[k] for k in want)), killed
        # Sampler: the new rows are there exactly once
        final = rows_of(env, mg.load_df(sname))
        new = final[len(old_rows):]
        if window and killed and final[:len(old_rows)] == old_rows and len(new) == 4 and new[:2] == new[2:]:
            # the symptom of the listed finding, and nothing else: the two new rows are there twice
            raise DuplicatedRows("the recovery reap appended the rows of the crop a second time")
        return (final[:len(old_rows)] == old_rows and len(new) == 2), killed


BODIES = {}
_G = globals()

CONDS = (
    split_conds(_G, "raw", body_raw, "c:int c2:int rev:bool base:int buf:bool",
                ["0 <= c <= 22 and c2 == 40 and not rev"], "phase", [0, 1, 2, 3, 4],
                fixed=dict(K=2), timeout=900,
                bounds="raw crop of 3 settings in 2 batches, K=2 chunks per file, written during pickle.dump or only "
                       "when the handle is closed (buffered); the process is killed after c "
                       "steps (every c up to the length of the phase) of: " + "; ".join(
                           "%d %s" % (k, v) for k, v in PHASES.items() if k <= 4) +
                       "; then safety reap and recovery by fresh processes")
    + split_conds(_G, "raw_nb", body_raw, "c:int c2:int rev:bool base:int buf:bool",
                  ["0 <= c <= 22 and c2 == 40 and not rev and not buf"], "phase", [0, 1],
                  fixed=dict(K=2, nbm=True), timeout=900,
                  bounds="as raw phases 0 (sow) and 1 (re-sow), for a crop sown by batch count with a remainder "
                         "(num_batches=2 over 3 settings): the recovery's re-sow of the prepared crop goes through")
    + [make_cond(_G, "raw_sow_other", body_raw, "c:int c2:int rev:bool base:int buf:bool nbm:bool",
                 ["0 <= c <= 22 and c2 == 40 and not rev"], fixed=dict(K=2, phase=0, alt=True), timeout=900,
                 bounds="first sow killed after c steps (every c), then a fresh process sows OTHER values of the same "
                        "shape under the same name (batchsize or batch-count crops), grows and reaps: exactly the "
                        "direct run over the new values")]
    + split_conds(_G, "raw_second_crash", body_raw, "c:int c2:int rev:bool base:int buf:bool",
                  ["0 <= c <= 22 and 0 <= c2 <= 30"], "phase", [0, 2, 4], fixed=dict(K=2), timeout=3600,
                  tiers=("thorough",),
                  bounds="as raw, plus a second kill after c2 steps of the recovery, and both rmtree orders")
    + [make_cond(_G, "sampler_dup_window", body_farmer, "c:int base:int", ["c == 4"], fixed=dict(K=2, phase=7, window=True),
                 timeout=300, expect="refuted", reach=False,
                 finding="sampler-rows-duplicated-if-killed-between-save-and-crop-deletion",
                 bounds="KNOWN FINDING probe: Sampler crop reap killed after exactly the 4 steps that save the table")]
    + split_conds(_G, "farmer", body_farmer, "c:int base:int", ["0 <= c <= 24"], "phase", [5, 6, 7],
                  fixed=dict(K=2), timeout=900,
                  bounds="reap of a Runner / Harvester (with earlier data in its file) / Sampler (with earlier rows) "
                         "crop of 2 batches killed after c steps: earlier data survives and is readable; a fresh "
                         "process re-reaping what is left delivers each point / row exactly once")
)

ASSUMPTIONS = [
    "StepFS step model (see C11); torn writes below chunk level, directory-entry durability (fsync), loss of "
    "already-closed files and simultaneous crashes of several processes are outside the claim",
    "rmtree deletes entries in sorted order (thorough: also reverse); other orders are outside the claim",
    "crops of 2 batches, K=2 chunks",
    "farmer phases are replayed on StepFS only; raw phases are replayed on the real disk with the same step "
    "counter around the real open / pickle.dump / os.replace / os.remove / shutil.rmtree",
]


def classify(cond, args, detail):
    # only the probe condition, only its one crash instant, only the duplicated-rows symptom
    if cond == "sampler_dup_window" and args.get("c") == 4 and "DuplicatedRows" in str(detail):
        return "sampler-rows-duplicated-if-killed-between-save-and-crop-deletion"
    return None
