"""C04 - sow, grow, reap returns exactly what running directly would have.

Real code executed: Crop.__init__/choose_batch_settings/prepare/save_info/load_info/
_sync_info_from_disk/save_function_to_disk/load_function/sow_combos/sow_cases/grow/
grow_missing/missing_results/reap/reap_combos/delete_all, Sower, Reaper, grow,
check_ready_to_reap, calc_clean_up_default_res, combo_runner_core, case_runner
(and get_picklelib/to_pickle/from_pickle in the real-pickle condition).
"""
from ..common import Cond, concretize, cbool, done, HarnessError, make_cond, split_conds
from ..stubs import basic
from .cropkit import (CROP_FUNCS, SYM, REAL, grid, case_list, mkfn, n_batches_expected,
                      batching_kwargs, crop_dir)

import xyzpy.gen.cropping as cp
from xyzpy.gen.combo_runner import combo_runner
from xyzpy.gen.case_runner import case_runner

CONFORMANCE = ("fakefs", "random")
FUNCS = CROP_FUNCS


def direct(api, fn, n, shuffle=False):
    """The in-process run the crop must reproduce."""
    if api == 0:
        return combo_runner(fn, grid(n), verbosity=0)
    if api in (1, 2):
        return case_runner(fn, ("a", "b"), case_list(n), verbosity=0)
    # cases over 'a' crossed with a sub-grid over 'b'
    cases = [{"a": 10 + i} for i in range(n)]
    return combo_runner(fn, {"b": [20, 21]}, cases=cases, verbosity=0)


def sow(crop, api, n, rev=False, **kw):
    if api == 0:
        g = grid(n)
        if rev:
            g = dict(reversed(list(g.items())))     # arguments spelled in non-alphabetical order
        crop.sow_combos(g, verbosity=0, **kw)
    elif api == 1:
        crop.sow_cases(("a", "b"), case_list(n), verbosity=0, **kw)
    elif api == 2:
        crop.sow_cases(None, [{"a": a, "b": b} for a, b in case_list(n)], verbosity=0, **kw)
    elif api == 4:
        # the same cases x sub-grid, through sow_cases with the sub-grid given as a dict
        crop.sow_cases(("a",), [(10 + i,) for i in range(n)], combos={"b": [20, 21]}, verbosity=0, **kw)
    else:
        crop.sow_combos({"b": [20, 21]}, cases=[{"a": 10 + i} for i in range(n)], verbosity=0, **kw)


def total(api, n):
    return 2 * n if api in (3, 4) else n


def reaped_equals_direct(api, out, ref):
    if api in (1, 2):
        # case_runner(flat) returns the flat tuple; the crop reaps the nested grid over
        # the case coordinate union: compare against the nested direct run instead
        return out == ref
    return out == ref


def direct_for_reap(api, fn, n):
    """What Crop.reap() documents: the nested tuple (cases => union grid with nan holes)."""
    if api in (1, 2):
        cases = [{"a": a, "b": b} for a, b in case_list(n)]
        return combo_runner(fn, cases=cases, verbosity=0)
    return direct(api, fn, n)


def same_nested(x, y):
    """Equality of nested tuples where missing slots (nan) must match missing slots."""
    if isinstance(x, tuple) or isinstance(y, tuple):
        if not (isinstance(x, tuple) and isinstance(y, tuple)) or len(x) != len(y):
            return False
        for p, q in zip(x, y):
            if not same_nested(p, q):
                return False
        return True
    xn = isinstance(x, float) and x != x
    yn = isinstance(y, float) and y != y
    if xn or yn:
        return xn and yn
    return x == y


# --------------------------------------------------------------------------
# (a) batching
def body_batching(E, api, n, mode, b, base, rev=False):
    """rev: the grid's arguments are spelled in non-alphabetical order; the crop documents that it sorts them by
    name, so the reaped nested tuple is the direct run of the name-sorted grid"""
    api = concretize(api, 0, 4)
    n = concretize(n, 1, 10)
    mode = concretize(mode, 0, 2)
    N = total(api, n)
    b = concretize(b, 1, N + 2)
    fn = mkfn(base)
    with E() as env:
        ref = direct_for_reap(api, fn, n)
        crop = cp.Crop(fn=fn, name="t", parent_dir=env.parent, **batching_kwargs(mode, b))
        sow(crop, api, n, rev=cbool(rev))
        B = n_batches_expected(N, mode, b)
        if crop.num_batches != B or crop.num_sown_batches != B:
            return False
        for i in range(1, B + 1):
            cp.grow(i, crop=crop, verbosity=0)
        out = crop.reap()
        return same_nested(out, ref) and not env.exists(crop_dir(env))


# --------------------------------------------------------------------------
# (b) shuffle: where it is given, its value, and the permutation it denotes
def body_shuffle(E, api, n, where, val, mode, b, base, j1, j2, j3, i1, i2, i3, fresh=False):
    api = concretize(api, 0, 3)
    n = concretize(n, 2, 4)
    if api == 3:
        n = 2
    where = concretize(where, 0, 1)   # 0 constructor, 1 sow call
    val = concretize(val, 1, 2)       # 1 True, 2 int seed
    mode = concretize(mode, 0, 2)
    N = total(api, n)
    b = concretize(b, 1, 2)
    js = [0, j1, j2, j3][:N]
    js2 = [0, i1, i2, i3][:N]
    fn = mkfn(base)
    with E(pools=[js, js2]) as env:
        ref = direct_for_reap(api, fn, n)
        shuffle = True if val == 1 else env.seed_for(js, N)
        if env.mode == "real":
            # True is seed 1; replay with an int seed that realises the permutation found
            shuffle = env.seed_for(js, N)
        ck, sk = {}, {}
        if where == 0:
            ck["shuffle"] = shuffle
        elif api in (0, 3):
            sk["shuffle"] = shuffle
        else:
            ck["shuffle"] = shuffle     # sow_cases has no shuffle argument
        crop = cp.Crop(fn=fn, name="t", parent_dir=env.parent, **ck, **batching_kwargs(mode, b))
        sow(crop, api, n, **sk)
        for i in range(1, crop.num_batches + 1):
            cp.grow(i, crop=crop, verbosity=0)
        if cbool(fresh):
            crop = cp.Crop(name="t", parent_dir=env.parent)      # reaped by another process
        out = crop.reap()
        return same_nested(out, ref) and not env.exists(crop_dir(env))


# --------------------------------------------------------------------------
# (c) grow order / grouping / repeats / parallel growing
def body_grow(E, B, per, how, repeat, base, j1, j2, j3, g1, g2, g3):
    B = concretize(B, 1, 4)
    per = concretize(per, 1, 2)           # settings per batch
    how = concretize(how, 0, 3)           # 0 Crop.grow(groups) 1 module grow 2 grow_missing after first group
    #                                       3 Crop.grow with num_workers (pool stub)
    n = B * per
    js = [0, j1, j2, j3][:B]
    order = list(range(1, B + 1))
    fn = mkfn(base)
    with E() as env:
        ref = direct_for_reap(0, fn, n)
        basic.fisher_yates(order, js)
        # grouping: cut after position k if g_k
        cuts = [cbool(g) for g in (g1, g2, g3)][:B - 1]
        groups, cur = [], [order[0]]
        for k, c in enumerate(cuts):
            if c:
                groups.append(cur)
                cur = []
            cur.append(order[k + 1])
        groups.append(cur)
        crop = cp.Crop(fn=fn, name="t", parent_dir=env.parent, batchsize=per)
        sow(crop, 0, n)
        if crop.num_batches != B:
            raise HarnessError("unexpected batch count")
        if env.mode == "sym":
            pool = basic.EagerFutureExecutor()
        else:
            from concurrent.futures import ThreadPoolExecutor

            pool = ThreadPoolExecutor(2)
        env._set(cp, "get_reusable_executor", lambda *a, **k: pool)
        if how == 2:
            crop.grow(tuple(groups[0]))
            crop.grow_missing()
        else:
            for g in groups:
                if how == 0:
                    crop.grow(tuple(g) if len(g) > 1 else g[0])
                elif how == 1:
                    for i in g:
                        cp.grow(i, crop=crop, verbosity=0)
                else:
                    for i in g:
                        # within-batch parallelism: the result tuple must keep the sown order whatever the
                        # completion order (real replay: a thread pool and a function whose first case is slowest)
                        cp.grow(i, crop=crop, verbosity=0, num_workers=2,
                                **({"fn": _slow_first(fn)} if env.mode == "real" else {}))
        r = concretize(repeat, 0, B)
        if r:
            cp.grow(r, crop=crop, verbosity=0)    # growing a batch twice changes nothing
        out = crop.reap()
        return same_nested(out, ref) and not env.exists(crop_dir(env))


def _slow_first(fn):
    import time

    seen = []

    def slow(**kw):
        seen.append(1)
        if len(seen) % 2 == 1:
            time.sleep(0.05)
        return fn(**kw)

    return slow


# --------------------------------------------------------------------------
# (d) every step done by a fresh process that only knows name and directory
def body_sessions(E, api, f1, f2, f3, f4, mode, b, base):
    api = concretize(api, 0, 3)
    mode = concretize(mode, 0, 2)
    b = concretize(b, 1, 3)
    n = 3
    fn = mkfn(base)
    with E() as env:
        ref = direct_for_reap(api, fn, n)

        def fresh(old, flag):
            return cp.Crop(name="t", parent_dir=env.parent) if cbool(flag) else old

        crop = cp.Crop(fn=fn, name="t", parent_dir=env.parent, **batching_kwargs(mode, b))
        sow(crop, api, n)
        B = crop.num_batches
        crop = fresh(crop, f1)
        cp.grow(1, crop=crop, verbosity=0)
        crop = fresh(crop, f2)
        if cbool(f4):
            crop.grow_missing()
        else:
            for i in range(2, B + 1):
                cp.grow(i, crop=crop, verbosity=0)
        crop = fresh(crop, f3)
        out = crop.reap()
        return same_nested(out, ref) and not env.exists(crop_dir(env))


def body_wait_many(E, wait, fresh, base):
    """ten batches (two-digit batch numbers), all grown, reaped with wait=True / False by the sowing object or a
    fresh one: results are chained in batch-number order, not in the order of the file names"""
    fn = mkfn(base)
    n = 10
    with E() as env:
        ref = direct_for_reap(0, fn, n)
        crop = cp.Crop(fn=fn, name="t", parent_dir=env.parent, batchsize=1)
        sow(crop, 0, n)
        for i in (3, 10, 1, 7, 2, 9, 4, 8, 6, 5):
            cp.grow(i, crop=crop, verbosity=0)
        if cbool(fresh):
            crop = cp.Crop(name="t", parent_dir=env.parent)
        out = crop.reap(wait=cbool(wait))
        return same_nested(out, ref) and not env.exists(crop_dir(env))


def body_successive(E, api, kind, f1, base, base2):
    """one process, the same crop name and directory used twice with two different functions: first crop sown,
    grown and reaped (kind 0) or sown and grown only, then sown again with the new function (kind 1); every batch
    is grown by a fresh `grow(i, Crop(name))` as a worker does.  The results are those of the second function."""
    api = concretize(api, 0, 1)
    kind = concretize(kind, 0, 1)
    n = 2
    fn1, fn2 = mkfn(base), mkfn(base2)
    with E() as env:
        ref2 = direct_for_reap(api, fn2, n)
        crop = cp.Crop(fn=fn1, name="t", parent_dir=env.parent, batchsize=1)
        sow(crop, api, n)
        for i in range(1, crop.num_batches + 1):
            cp.grow(i, crop=cp.Crop(name="t", parent_dir=env.parent) if cbool(f1) else crop, verbosity=0)
        if kind == 0:
            crop.reap()
        crop = cp.Crop(fn=fn2, name="t", parent_dir=env.parent, batchsize=1)
        sow(crop, api, n)
        for i in range(1, crop.num_batches + 1):
            cp.grow(i, crop=cp.Crop(name="t", parent_dir=env.parent) if cbool(f1) else crop, verbosity=0)
        out = crop.reap()
        return same_nested(out, ref2) and not env.exists(crop_dir(env))


# --------------------------------------------------------------------------
# (e) the real pickling library lookup (to_pickle / from_pickle / get_picklelib)
def _module_level_fn(a, b=0):
    return 100 * a + b


def body_realpickle(E, fresh, nb, in_main=False):
    """in_main: the swept function lives in __main__ at sow time (a script / notebook) and is NOT there in the
    process that grows and reaps: it must have been stored by value"""
    import sys
    import types

    nb = concretize(nb, 1, 2)
    fn = _module_level_fn
    main = sys.modules["__main__"]
    in_main = bool(in_main)
    if in_main:
        fn = types.FunctionType(_module_level_fn.__code__, {"__builtins__": __builtins__}, "vf_main_fn")
        fn.__module__ = "__main__"
        fn.__qualname__ = "vf_main_fn"
        fn.__defaults__ = _module_level_fn.__defaults__
        setattr(main, "vf_main_fn", fn)
    try:
        with E(pickle="real") as env:
            ref = combo_runner(fn, grid(4), verbosity=0)
            crop = cp.Crop(fn=fn, name="t", parent_dir=env.parent, num_batches=nb)
            crop.sow_combos(grid(4), verbosity=0)
            if in_main:
                delattr(main, "vf_main_fn")          # "another process": __main__ has no such function
            if cbool(fresh) or in_main:
                crop = cp.Crop(name="t", parent_dir=env.parent)
            for i in range(1, nb + 1):
                cp.grow(i, crop=crop, verbosity=0)       # function loaded from disk
            out = crop.reap()
            return out == ref
    finally:
        if hasattr(main, "vf_main_fn"):
            delattr(main, "vf_main_fn")


BODIES = {}
_G = globals()

_B = "grids / case lists (tuple and dict spelling) / cases x sub-grid; batchsize 1..N+1 or num_batches 1..N+2 " \
     "or neither; all batches grown in order; symbolic payload base"
_API = "api: 0 sow_combos grid, 1 sow_cases tuples, 2 sow_cases dicts, 3 sow_combos cases x sub-grid"

CONDS = (
    split_conds(_G, "batching", body_batching, "n:int mode:int b:int base:int rev:bool",
                ["1 <= n <= 6 and 0 <= mode <= 2 and 1 <= b <= n + 2", "not rev or API == 0"], "api", [0, 1, 2],
                timeout=200, tiers=("quick",), bounds="N<=6 settings; " + _B + "; " + _API)
    + [make_cond(_G, "batching_api3", body_batching, "n:int mode:int b:int base:int",
                 ["1 <= n <= 3 and 0 <= mode <= 2 and 1 <= b <= 2 * n + 2"], fixed=dict(api=3),
                 timeout=200, tiers=("quick",), bounds="N=2n<=6 settings; " + _B + " [api=3]")]
    + [make_cond(_G, "batching_api4", body_batching, "n:int mode:int b:int base:int",
                 ["1 <= n <= 3 and 0 <= mode <= 2 and 1 <= b <= 2 * n + 2"], fixed=dict(api=4),
                 timeout=200, tiers=("quick",),
                 bounds="N=2n<=6 settings; " + _B + " [cases x sub-grid through sow_cases(combos=<dict>)]")]
    + [make_cond(_G, "batching_t_api%d_n%d" % (api, n), body_batching, "mode:int b:int base:int",
                 ["0 <= mode <= 2 and 1 <= b <= %d" % ((2 * n if api == 3 else n) + 2)],
                 fixed=dict(api=api, n=n), timeout=300, tiers=("thorough",),
                 bounds="N=%d settings; %s [api=%d]" % (2 * n if api == 3 else n, _B, api))
       for api in range(4) for n in ((7, 8, 9, 10) if api != 3 else (4, 5))]
    + split_conds(_G, "shuffle", body_shuffle,
                  "n:int where:int val:int mode:int b:int base:int j1:int j2:int j3:int i1:int i2:int i3:int fresh:bool",
                  ["2 <= n <= 4 and 0 <= where <= 1 and 1 <= val <= 2 and 0 <= mode <= 2 and 1 <= b <= 2",
                   "not fresh or (mode == 1 and b == 2)",
                   "0 <= j1 <= 1 and 0 <= j2 <= 2 and 0 <= j3 <= 3 and 0 <= i1 <= 1 and 0 <= i2 <= 2 and 0 <= i3 <= 3",
                   "n <= 3 or (mode == 1 and b == 2)"], "api", [0, 1, 2], timeout=400,
                  bounds="shuffle given to the constructor or to the sow call, True or int seed, every permutation "
                         "of N<=4 settings (sower and reaper permutations tied only through equal (seed, length)), reaped by "
                         "the sowing object or by a fresh Crop; "
                         "all batching modes with b in 1..2 for N<=3, batchsize=2 for N=4; " + _API)
    + [make_cond(_G, "shuffle_api3", body_shuffle,
                 "where:int val:int mode:int b:int base:int j1:int j2:int j3:int i1:int i2:int i3:int fresh:bool",
                 ["0 <= where <= 1 and 1 <= val <= 2 and 1 <= mode <= 2 and b == 2", "not fresh or mode == 1",
                  "0 <= j1 <= 1 and 0 <= j2 <= 2 and 0 <= j3 <= 3 and 0 <= i1 <= 1 and 0 <= i2 <= 2 and 0 <= i3 <= 3"],
                 fixed=dict(api=3, n=2), timeout=400,
                 bounds="cases x sub-grid with N=4 settings: every permutation, shuffle at constructor or sow call, "
                        "True or int, batchsize=2 or num_batches=2")]
    + split_conds(_G, "grow_order", body_grow,
                  "B:int repeat:int base:int j1:int j2:int j3:int g1:bool g2:bool g3:bool",
                  ["1 <= B <= 3 and 0 <= repeat <= B", "0 <= j1 <= 1 and 0 <= j2 <= 2 and j3 == 0"],
                  "how", [0, 1, 2, 3], fixed=dict(per=2), timeout=300,
                  bounds="crops of B<=3 batches of 2 settings; every order and every contiguous grouping of the "
                         "batch ids; optional regrow of any one batch; how: 0 Crop.grow(groups) 1 grow() each "
                         "2 first group then grow_missing 3 grow(num_workers) on a pool stub")
    + split_conds(_G, "grow_order4", body_grow,
                  "repeat:int base:int j1:int j2:int j3:int g1:bool g2:bool g3:bool",
                  ["0 <= repeat <= 1", "0 <= j1 <= 1 and 0 <= j2 <= 2 and 0 <= j3 <= 3"],
                  "how", [0, 1, 2, 3], fixed=dict(per=1, B=4), timeout=600, tiers=("thorough",),
                  bounds="as grow_order with B=4 batches of 1 setting")
    + split_conds(_G, "sessions", body_sessions,
                  "f1:bool f2:bool f3:bool f4:bool mode:int b:int base:int",
                  ["0 <= mode <= 2 and 1 <= b <= 3"], "api", [0, 1, 2, 3], timeout=300,
                  bounds="3 settings; a fresh Crop(name, parent_dir) object optionally before the first grow, before "
                         "the remaining grows (explicit or grow_missing) and before the reap; all batching modes; "
                         + _API)
    + [make_cond(_G, "wait_many", body_wait_many, "wait:bool fresh:bool base:int", [], timeout=200,
                 bounds="10 batches of one setting grown in scrambled order, reaped with wait=True|False by the "
                        "sowing or a fresh Crop object")]
    + [make_cond(_G, "successive", body_successive, "api:int kind:int f1:bool base:int base2:int",
                 ["0 <= api <= 1 and 0 <= kind <= 1 and base != base2"], timeout=200,
                 bounds="the same crop name and directory used for two different functions in one process (after a "
                        "reap, or by a re-sow without reap), batches grown by the sowing object or by "
                        "Crop(name) objects: the second reap returns the second function's values")]
    + [make_cond(_G, "realpickle", body_realpickle, "fresh:bool nb:int", ["1 <= nb <= 2"], timeout=120,
                 bounds="the real get_picklelib/to_pickle/from_pickle with a module-level function; function loaded "
                        "from disk by grow and by a fresh Crop"),
       make_cond(_G, "realpickle_main", lambda E, dummy, **k: body_realpickle(E, **k), "dummy:int", ["dummy == 0"],
                 fixed=dict(in_main=True, fresh=True, nb=2), timeout=120,
                 bounds="as realpickle with a function that lives in __main__ at sow time only (script / notebook): "
                        "the growing and reaping 'process' has no such attribute in __main__, so the function must "
                        "have been stored by value")]
)

ASSUMPTIONS = [
    "file system replaced by FakeFS in object mode (write_to_disk/read_from_disk store/return a structural copy "
    "under the path computed by the real code); real disk and byte-level pickle format outside the claim",
    "to_pickle/from_pickle replaced by an identity-preserving stub except in the 'realpickle' condition",
    "`random` replaced by NDRandom (same (seed,len) => same permutation; different seeds independent)",
    "process pools replaced by a sequential submit-style stub; MPI rank handling not exercised",
    "one dimension at a time (batching | shuffle | grow order | sessions); products of the dimensions and "
    "N > 8 are outside the claim (sizes for N<=48 are covered by the C07 kernel)",
    "raw reaps nest results by argument name in sorted order; harness grids use sorted names",
]


def classify(cond, args, detail):
    if cond == "shuffle":
        return None
    return None
