"""C06 - a crop attached to a Runner, Harvester or Sampler reaps what a direct run gives.

Real code executed: Runner.Crop/Harvester.Crop/Sampler.Crop, Crop.parse_constants, save_info
(deep copy + pickled farmer), _sync_info_from_disk, load_function, reap_combos_to_ds, reap_runner,
reap_harvest, reap_samples, plus everything of C03 / C04 / C05 / C15 underneath.
"""
from ..common import Cond, concretize, cbool, done, HarnessError, make_cond, split_conds
from ..env import Env
from .xrkit import fingerprint, same_fp, rows_of, canon
from .C15 import install_choice

import xyzpy.gen.cropping as cp
import xyzpy.gen.farming as fm
import xyzpy.manage as mg
from xyzpy.gen.farming import Runner, Harvester, Sampler

FUNCS = [cp.Crop.reap_combos_to_ds, cp.Crop.reap_runner, cp.Crop.reap_harvest, cp.Crop.reap_samples,
         cp.Crop.parse_constants, cp.Crop.save_info, cp.Crop._sync_info_from_disk, cp.Crop.load_function,
         fm.Runner.Crop, fm.Harvester.Crop, fm.Sampler.Crop]
CONFORMANCE = ("minixr", "minipd", "fakefs", "random")

A = [10, 11]
B = [20, 21]
W = [100, 200]


def SYM(**kw):
    kw.setdefault("fs", "obj")
    kw.setdefault("xr", True)
    kw.setdefault("pd", True)
    return Env("sym", **kw)


def REAL(**kw):
    for k in ("fs", "xr", "pd"):
        kw.pop(k, None)
    return Env("real", **kw)


def payload(base, a, b, t, res):
    return base + 100 * a + b + 1000 * t + 7 * res


def make_runner(base, nvars, idim, const_is_dim, t):
    def fn(a, b=0, t=0, res=0, w=None):
        x = payload(base, a, b, t, res)
        if nvars == 1:
            return [x, x + 7] if idim else x
        return x, ([x + 1, x + 2] if idim else x + 1)

    var_names = ["x", "y"][:nvars]
    var_dims = None
    if idim:
        var_dims = {"x": "w"} if nvars == 1 else {"y": "w"}
    constants = {"t": t}
    var_coords = {}
    if idim:
        if const_is_dim:
            constants["w"] = list(W)
        else:
            var_coords["w"] = list(W)
    return Runner(fn, var_names, var_dims=var_dims, var_coords=var_coords, constants=constants,
                  resources={"res": 3}, attrs={"foo": "bar"})


def grow_all(env, crop_name, reload_):
    """every batch, by number: as a cluster job does it (the module-level grow with a crop loaded by name), or - by the
    process that holds the crop - through the Crop.grow method, one id and then the remaining ids at once"""
    crop = cp.Crop(name=crop_name, parent_dir=env.parent)
    if reload_:
        for i in range(1, crop.num_batches + 1):
            cp.grow(i, crop=cp.Crop(name=crop_name, parent_dir=env.parent), verbosity=0)
    else:
        crop.grow(1, verbosity=0)
        if crop.num_batches > 1:
            crop.grow(tuple(range(2, crop.num_batches + 1)), verbosity=0)


# ------------------------------------------------------------------ Runner
def body_runner(E, n1, n2, cases, nvars, idim, const_is_dim, mode, b, reload_, shuf, base, t, j1, j2, j3,
                unsorted=False, resow=False, ovr=False, t2=0):
    ck = {"constants": {"t": t2}} if cbool(ovr) else {}      # a constant given again, with another value, at sow time
    n1 = concretize(n1, 1, 2)
    n2 = concretize(n2, 1, 2)
    nvars = concretize(nvars, 1, 2)
    idim = cbool(idim)
    const_is_dim = cbool(const_is_dim) and idim
    mode = concretize(mode, 0, 2)
    b = concretize(b, 1, 3)
    reload_ = cbool(reload_)
    N = n1 * n2
    js = [0, j1, j2, j3][:N]
    combos = {"a": A[:n1], "b": B[:n2]}
    if cbool(unsorted):
        combos = {"b": B[:n2], "a": A[:n1]}          # arguments given in non-alphabetical order
    pts = [(a, bb) for a in A[:n1] for bb in B[:n2]]
    if cbool(cases):
        pts = pts[::-1][: max(1, N - 1)]          # an unsorted proper subset (holes in the grid)
    with E(pools=[js]) as env:
        direct = make_runner(base, nvars, idim, const_is_dim, t)
        if cbool(cases):
            ref = direct.run_cases(pts, verbosity=0, **ck)
        else:
            ref = direct.run_combos(combos, verbosity=0, **ck)
        r = make_runner(base, nvars, idim, const_is_dim, t)
        kw = {} if mode == 0 else ({"batchsize": b} if mode == 1 else {"num_batches": b})
        crop = r.Crop(name="rc", parent_dir=env.parent, **kw)
        if cbool(resow):
            # the crop was sown and grown before with other values (same layout) and is sown again without a reap
            # in between ("you can safely resow"): the batches are grown again by number
            crop.sow_combos({"a": [a + 50 for a in A[:n1]], "b": B[:n2]}, verbosity=0)
            grow_all(env, "rc", reload_)
        if cbool(cases):
            crop.sow_cases(("a", "b"), pts, verbosity=0, **ck)
        else:
            sk = {}
            if cbool(shuf):
                sk["shuffle"] = env.seed_for(js, N)
            crop.sow_combos(combos, verbosity=0, **sk, **ck)
        grow_all(env, "rc", reload_)
        if reload_:
            crop = cp.Crop(name="rc", parent_dir=env.parent)
            r = crop.farmer
            if r.fn is None:
                return False                     # function must be re-attached to the reloaded farmer
        out = crop.reap()
        if r.last_ds is not out:
            return False
        if env.exists(env.parent + "/.xyz-rc"):
            return False
        return same_fp(canon(fingerprint(env, out)), canon(fingerprint(env, ref)))


# ------------------------------------------------------------------ Harvester
def body_harvester(E, n1, pre, ow, mode, b, reload_, base, t, p1, p2):
    n1 = concretize(n1, 1, 2)
    pre = cbool(pre)                   # data already harvested (label a=10, value p1 or conflicting)
    ow = concretize(ow, 0, 2)
    overwrite = [None, True, False][ow]
    mode = concretize(mode, 0, 2)
    b = concretize(b, 1, 2)
    reload_ = cbool(reload_)
    combos = {"a": A[:n1], "b": B[:1]}
    with E() as env:
        def harvester(name):
            return Harvester(make_runner(base, 1, False, False, t), data_name=env.parent + "/" + name)

        merge_err = _merge_error(env)
        outs = []
        for name, via_crop in (("d1.h5", False), ("d2.h5", True)):
            h = harvester(name)
            if pre:
                h.harvest_combos({"a": [10], "b": [20]}, verbosity=0)
                if cbool(p1):
                    # make the old value differ from what the new run will produce
                    h.add_ds(_shifted(env, h.full_ds), overwrite=True)
            raised = False
            try:
                if via_crop:
                    kw = {} if mode == 0 else ({"batchsize": b} if mode == 1 else {"num_batches": b})
                    crop = h.Crop(name="hc", parent_dir=env.parent, **kw)
                    crop.sow_combos(combos, verbosity=0)
                    grow_all(env, "hc", reload_)
                    if reload_:
                        crop = cp.Crop(name="hc", parent_dir=env.parent)
                        h = crop.farmer            # the farmer unpickled with the crop
                    crop.reap(overwrite=overwrite)
                else:
                    h.harvest_combos(combos, overwrite=overwrite, verbosity=0)
            except merge_err:
                raised = True
            disk = mg.load_ds(env.parent + "/" + name)
            fp_disk = fingerprint(env, disk)
            if env.mode == "real":
                disk.close()
            outs.append((raised, fingerprint(env, h.full_ds), fp_disk, fingerprint(env, h.last_ds)))
            if via_crop:
                # crop deleted iff the harvest went through
                if env.exists(env.parent + "/.xyz-hc") != raised:
                    return False
        (r1, mem1, disk1, last1), (r2, mem2, disk2, last2) = outs
        if r1 != r2:
            return False
        if not same_fp(mem1, mem2) or not same_fp(disk1, disk2) or not same_fp(mem2, disk2):
            return False
        return same_fp(last1, last2)


def body_harvester_meanwhile(E, reload_, sync2, base, t):
    """the harvester holds data in memory when it sows; before the reap another process merges further points
    into the same file; the crop is reaped by the sowing object or by one loaded by name: the file ends up with
    the union - exactly what harvest_combos at that moment would leave"""
    reload_ = cbool(reload_)
    with E() as env:
        name = env.parent + "/d.h5"

        def harvester():
            return Harvester(make_runner(base, 1, False, False, t), data_name=name)

        h = harvester()
        h.harvest_combos({"a": [10], "b": [20]}, verbosity=0)            # data in memory at sow time
        crop = h.Crop(name="hc", parent_dir=env.parent, batchsize=1)
        crop.sow_combos({"a": [11], "b": [20]}, verbosity=0)
        other = harvester()
        other.harvest_combos({"a": [12], "b": [20]}, verbosity=0)       # meanwhile, elsewhere
        grow_all(env, "hc", reload_)
        if reload_:
            crop = cp.Crop(name="hc", parent_dir=env.parent)
            h = crop.farmer
        crop.reap()
        ref = harvester()
        ref.data_name = env.parent + "/ref.h5"
        ref.harvest_combos({"a": [10, 11, 12], "b": [20]}, verbosity=0)
        disk = mg.load_ds(name)
        fp_disk = fingerprint(env, disk)
        if env.mode == "real":
            disk.close()
        return same_fp(fp_disk, fingerprint(env, ref.full_ds)) and same_fp(fingerprint(env, h.full_ds), fp_disk)


def _merge_error(env):
    if env.mode == "sym":
        from ..stubs import minixr

        return minixr.MergeError
    import xarray

    return xarray.MergeError


def _shifted(env, ds):
    """same coordinates, different value (to provoke a conflict with a later harvest)"""
    if env.mode == "sym":
        out = ds.copy(deep=True)
        out._vars = {k: v._map(lambda c: c + 1) for k, v in out._vars.items()}
        return out
    return ds + 1


# ------------------------------------------------------------------ Sampler
def body_sampler(E, n, bs, reload_, base, i0, i1, i2, i3, ov=False, nb=False):
    n = concretize(n, 1, 2)
    bs = concretize(bs, 1, 2)
    reload_ = cbool(reload_)
    with E() as env:
        def sampler(name):
            r = make_runner(base, 1, False, False, 5)
            return Sampler(r, data_name=env.parent + "/" + name, default_combos={"a": A, "b": B})

        install_choice(env, [i0, i1, i2, i3])
        s1 = sampler("s1.pkl")
        # ov: a per-call override of one argument's sampling space, merged over the default combos
        override = {"b": [77, 78]} if cbool(ov) else None
        s1.sample_combos(n, combos=override, verbosity=0)
        install_choice(env, [i0, i1, i2, i3])
        s2 = sampler("s2.pkl")
        # nb: the crop is configured by batch COUNT instead of batch size
        crop = s2.Crop(name="sc", parent_dir=env.parent, **({"num_batches": bs} if cbool(nb) else {"batchsize": bs}))
        crop.sow_samples(n, combos=override, verbosity=0)
        want_b = min(bs, n) if cbool(nb) else -(-n // bs)
        if crop.num_batches != want_b or len(env.listdir(env.parent + "/.xyz-sc/batches")) != want_b:
            return False                    # the samples are batched as requested
        grow_all(env, "sc", reload_)
        if reload_:
            crop = cp.Crop(name="sc", parent_dir=env.parent)
            s2 = crop.farmer
        crop.reap()
        t1, t2 = rows_of(env, s1.full_df), rows_of(env, s2.full_df)
        if t1 != t2 or len(t1) != n:
            return False
        if rows_of(env, s1.last_df) != rows_of(env, s2.last_df):
            return False
        d1 = rows_of(env, mg.load_df(env.parent + "/s1.pkl"))
        d2 = rows_of(env, mg.load_df(env.parent + "/s2.pkl"))
        return d1 == d2 == t1 and not env.exists(env.parent + "/.xyz-sc")


BODIES = {}
_G = globals()
_RS = ("n1:int n2:int cases:bool nvars:int idim:bool const_is_dim:bool mode:int b:int reload_:bool shuf:bool "
       "base:int t:int j1:int j2:int j3:int unsorted:bool resow:bool")

CONDS = [
    make_cond(_G, "runner_desc", body_runner, _RS,
              ["1 <= n1 <= 2 and 1 <= n2 <= 2 and 1 <= nvars <= 2 and mode == 1 and b == 2 and not shuf",
               "j1 == 0 and j2 == 0 and j3 == 0", "idim or not const_is_dim",
               "not unsorted or (not cases and n1 == 2 and n2 == 2 and not const_is_dim)",
               "not resow or (not cases and not unsorted and nvars == 1 and not idim)"], timeout=600,
              bounds="Runner crops: grids up to 2x2 and unsorted case subsets, 1-2 variables, optional internal "
                     "dimension, constant that is / is not an internal dimension, resource, attribute; batchsize 2; "
                     "with / without reloading crop and farmer by name; combos also given in non-alphabetical "
                     "argument order (compared up to the order of dimensions)"),
    make_cond(_G, "runner_batching", body_runner, _RS,
              ["n1 == 2 and n2 == 2 and nvars == 2 and idim and not const_is_dim and 0 <= mode <= 2 and 1 <= b <= 3",
               "0 <= j1 <= 1 and 0 <= j2 <= 2 and 0 <= j3 <= 3", "shuf or (j1 == 0 and j2 == 0 and j3 == 0)",
               "not shuf or (mode == 1 and b == 2 and not cases)", "not unsorted", "not resow"], timeout=600,
              bounds="2x2 grid / 3 cases, two variables: all batchings (b in 1..3), reload on/off; plus every "
                     "sow-time shuffle permutation (batchsize 2), reaped by the sowing object or by a reloaded one"),
    make_cond(_G, "runner_sow_constants", body_runner, "n2:int cases:bool reload_:bool base:int t:int t2:int",
              ["1 <= n2 <= 2"],
              fixed=dict(n1=2, nvars=1, idim=False, const_is_dim=False, mode=1, b=2, shuf=False, j1=0, j2=0, j3=0,
                         unsorted=False, resow=False, ovr=True), timeout=600,
              bounds="Runner crops whose runner has a stored constant t (symbolic) and which are sown (combos or "
                     "cases) with constants={'t': t2} (symbolic): equal to run_combos / run_cases of an identical "
                     "runner with the same per-call constants; 2x1 and 2x2 grids, batchsize 2, reload on/off"),
] + split_conds(_G, "harvester", body_harvester, "n1:int pre:bool mode:int b:int reload_:bool base:int t:int p1:bool p2:bool",
              ["1 <= n1 <= 2 and 0 <= mode <= 2 and 1 <= b <= 2 and not p2", "pre or not p1"], "ow", [0, 1, 2],
              timeout=900,
              bounds="Harvester crops vs direct harvest_combos: 1-2 settings, optional earlier data (equal or "
                     "conflicting), the three overwrite policies, all batchings, reload on/off: same exception "
                     "behaviour, same full_ds, same disk dataset, same last_ds; crop kept iff the merge failed") + [
    make_cond(_G, "harvester_meanwhile", body_harvester_meanwhile, "reload_:bool sync2:bool base:int t:int", [],
              timeout=200,
              bounds="Harvester with data in memory at sow time, another process merging a further point into the "
                     "same file before the reap, crop reaped by the sowing object or by one loaded by name: the file "
                     "holds the union"),
    make_cond(_G, "sampler", body_sampler, "n:int bs:int reload_:bool base:int i0:int i1:int i2:int i3:int ov:bool nb:bool",
              ["1 <= n <= 2 and 1 <= bs <= 2 and 0 <= i0 <= 1 and 0 <= i1 <= 1 and 0 <= i2 <= 1 and 0 <= i3 <= 1",
               "n == 2 or (i2 == 0 and i3 == 0)", "not nb or not ov"], timeout=600,
              bounds="Sampler crops vs direct sample_combos with the same drawn indices: n<=2, batchsize 1..2, "
                     "reload on/off: same table in memory and on disk"),
]

ASSUMPTIONS = [
    "composition of the stubs of C03/C04/C05/C15: MiniXR, MiniPD, FakeFS, NDRandom, identity pickling of farmer "
    "and function (the real cloudpickle of a farmer object is outside the claim)",
    "grids <= 2x2",
]


def classify(cond, args, detail):
    if cond.startswith("runner") and args.get("const_is_dim"):
        return "reaped-constant-internal-dim-becomes-attr"
    return None
