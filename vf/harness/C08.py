"""C08 - reported progress always matches the batches that really finished.

Inductive step: from an *arbitrary* valid crop state (B sown batches, any subset F of them
finished - built directly on the file system by the real sow/grow) one arbitrary operation
is applied and the four progress queries are compared with a ghost set F'.  Representation
invariant assumed of the pre-state: settings file present and consistent with the B batch
files; result files only for ids in 1..B, each complete and of its batch's length.

Real code executed: calc_progress, is_prepared, is_ready_to_reap, missing_results,
num_sown_batches, num_results, __str__, grow, Crop.grow, grow_missing, check_bad, sow_combos.
"""
from ..common import Cond, concretize, cbool, done, HarnessError, make_cond, split_conds
from .cropkit import CROP_FUNCS, SYM, REAL, grid, mkfn, crop_dir

import xyzpy.gen.cropping as cp

CONFORMANCE = ("fakefs",)
FUNCS = CROP_FUNCS

OPS = {
    0: "re-sow same shape", 1: "grow(i)", 2: "Crop.grow(subset)", 3: "grow_missing",
    4: "grow(i) with a function that raises (Boom / StopIteration / KeyError / RuntimeError) on a later setting", 5: "delete result i",
    6: "result i of wrong length, then check_bad", 7: "result i unreadable, then check_bad",
    8: "reload the Crop and query", 9: "check_bad on a healthy crop",
}


class Boom(Exception):
    pass


def build_state(env, fn, B, per, fin):
    """sown crop of B batches x per settings with exactly the batches in `fin` grown"""
    crop = cp.Crop(fn=fn, name="t", parent_dir=env.parent, batchsize=per)
    crop.sow_combos(grid(B * per), verbosity=0)
    if crop.num_batches != B:
        raise HarnessError("state construction: wrong batch count")
    for i in fin:
        cp.grow(i, crop=crop, verbosity=0)
    return crop


def queries_ok(env, crop, B, F, per):
    """the four progress queries against the ghost set F"""
    F = sorted(F)
    missing = tuple(i for i in range(1, B + 1) if i not in F)
    if crop.num_sown_batches != B:
        return False
    if crop.num_results != len(F):
        return False
    if crop.missing_results() != missing:
        return False
    if crop.is_ready_to_reap() != (len(missing) == 0):
        return False
    if not crop.is_prepared():
        return False
    text = str(crop)
    if ("%d / %d batches of size %d completed" % (len(F), B, per)) not in text:
        return False
    if ("%.1f%%" % (100 * len(F) / B)) not in text:
        return False
    # the files themselves
    rdir = crop_dir(env) + "/results"
    if env.listdir(rdir) != sorted("xyz-result-%d.jbdmp" % i for i in F):
        return False
    return True


EVALS = []
BASE = [0]


def counted_fn(a=0, b=0, c=0, k=0):
    """the payload function of cropkit.mkfn, counting its evaluations"""
    EVALS.append(1)
    return BASE[0] + 10000 * a + 100 * b + c + 1000000 * k


def body_step(E, B, per, f1, f2, f3, f4, fresh, op, i, s1, s2, s3, s4, base):
    B = concretize(B, 1, 4)
    per = concretize(per, 1, 2)
    if B * per not in (1, 2, 3, 4, 6, 8):
        per = 1
    op = concretize(op, 0, 9)
    i = concretize(i, 1, B)
    fin = [k + 1 for k, f in enumerate([f1, f2, f3, f4][:B]) if cbool(f)]
    evals = EVALS
    del evals[:]
    BASE[0] = base
    fn = counted_fn         # module-level: pickled by reference, so the copy a grow loads from disk counts here too

    with E() as env:
        crop = build_state(env, fn, B, per, fin)
        rdir = crop_dir(env) + "/results"
        if cbool(fresh):
            crop = cp.Crop(name="t", parent_dir=env.parent)
        if not queries_ok(env, crop, B, fin, per):
            return False
        before = {k: env.read_obj(rdir + "/xyz-result-%d.jbdmp" % k) for k in fin}
        F = list(fin)
        touched = []
        if op == 0:
            crop2 = cp.Crop(fn=fn, name="t", parent_dir=env.parent, batchsize=per)
            crop2.sow_combos(grid(B * per), verbosity=0)
        elif op == 1:
            cp.grow(i, crop=crop, verbosity=0)
            touched = [i]
        elif op == 2:
            S = [k + 1 for k, f in enumerate([s1, s2, s3, s4][:B]) if cbool(f)]
            del evals[:]
            crop.grow(tuple(S))                # the empty subset included: nothing is grown
            if len(evals) != per * len(S):
                return False
            touched = S
        elif op == 3:
            want_missing = [k for k in range(1, B + 1) if k not in F]
            del evals[:]
            crop.grow_missing()                # also when nothing is missing: then it must do nothing
            if len(evals) != per * len(want_missing):
                return False                   # exactly the settings of the missing batches were evaluated
            touched = want_missing
        elif op == 4:
            calls = []

            exc = [Boom, StopIteration, KeyError, RuntimeError][(1 if cbool(s1) else 0) + (2 if cbool(s2) else 0)]

            def bad_fn(**kw):
                calls.append(kw)
                if len(calls) == per:      # raises on the last setting of the batch
                    raise exc()
                return 0

            try:
                cp.grow(i, crop=crop, fn=bad_fn, verbosity=0)
                return False               # a failing function must make the grow fail ...
            except Exception:  # noqa  (a StopIteration may legitimately surface as RuntimeError)
                pass                       # ... and (below) the batch must not count as finished
        elif op == 5:
            if i in F:
                env.remove(rdir + "/xyz-result-%d.jbdmp" % i)
                F.remove(i)
        elif op == 6:
            if i in F:
                env.write_obj(rdir + "/xyz-result-%d.jbdmp" % i, tuple(before[i]) + (0,))
                bad = crop.check_bad()
                if tuple(str(x) for x in bad) != (str(i),):
                    return False
                F.remove(i)
        elif op == 7:
            if i in F:
                env.make_unreadable(rdir + "/xyz-result-%d.jbdmp" % i)
                bad = crop.check_bad()
                if tuple(str(x) for x in bad) != (str(i),):
                    return False
                F.remove(i)
        elif op == 8:
            crop = cp.Crop(name="t", parent_dir=env.parent)
        elif op == 9:
            if crop.check_bad() != ():
                return False
        for k in touched:
            if k not in F:
                F.append(k)
        if not queries_ok(env, crop, B, F, per):
            return False
        # a fresh process sees the same
        if not queries_ok(env, cp.Crop(name="t", parent_dir=env.parent), B, F, per):
            return False
        # only the grown ids' results may have changed; every result is its batch's tuple
        for k in F:
            res = env.read_obj(rdir + "/xyz-result-%d.jbdmp" % k)
            batch = env.read_obj(crop_dir(env) + "/batches/xyz-batch-%d.jbdmp" % k)
            if len(res) != len(batch):
                return False
            for r, kw in zip(res, batch):
                if r != fn(**kw):
                    return False
        if op in (3,) and not crop.is_ready_to_reap():
            return False
        return True


def body_history(E, o1, a1, o2, a2, o3, a3, base, steps=3):
    """short histories from the empty state (establishes the invariant)"""
    B, per = 3, 1
    fn = mkfn(base)
    with E() as env:
        crop = cp.Crop(fn=fn, name="t", parent_dir=env.parent, batchsize=per)
        if crop.is_prepared() or crop.num_sown_batches != -1 or crop.num_results != -1:
            return False
        # nothing on disk: not ready, whether asked of the new object or of one loaded by name only
        if crop.is_ready_to_reap() or cp.Crop(name="t", parent_dir=env.parent).is_ready_to_reap():
            return False
        if "Not yet sown" not in str(crop):
            return False
        crop.sow_combos(grid(3), verbosity=0)
        F = []
        rdir = crop_dir(env) + "/results"
        for o, a in ((o1, a1), (o2, a2), (o3, a3))[:steps]:
            o = concretize(o, 0, 4)
            a = concretize(a, 1, 3)
            if o == 0:
                cp.grow(a, crop=crop, verbosity=0)
                if a not in F:
                    F.append(a)
            elif o == 1:
                if a in F:
                    env.remove(rdir + "/xyz-result-%d.jbdmp" % a)
                    F.remove(a)
            elif o == 2:
                crop = cp.Crop(name="t", parent_dir=env.parent)
            elif o == 3:
                crop.sow_combos(grid(3), verbosity=0)
            elif o == 4:
                if len(F) < 3:
                    crop.grow_missing()
                F = [1, 2, 3]
            if not queries_ok(env, crop, B, F, per):
                return False
        return True


def body_uneven(E, n, nb, f1, f2, f3, base, resow=0):
    """crops sown by num_batches with a remainder (uneven batch sizes): check_bad on healthy results
    reports nothing and deletes nothing, whichever batches are finished; sowing the same crop again with the same
    shape (resow: 1 before, 2 after the batches are grown) leaves the batch files and every query as they were"""
    n = concretize(n, 3, 7)
    nb = concretize(nb, 2, 3)
    resow = concretize(resow, 0, 2)
    fn = mkfn(base)
    with E() as env:
        crop = cp.Crop(fn=fn, name="t", parent_dir=env.parent, num_batches=nb)
        crop.sow_combos(grid(n), verbosity=0)
        bdir = crop_dir(env) + "/batches"
        sown = env.listdir(bdir)
        if resow == 1:
            crop.sow_combos(grid(n), verbosity=0)
        fin = [k + 1 for k, f in enumerate([f1, f2, f3][:nb]) if cbool(f)]
        for i in fin:
            cp.grow(i, crop=crop, verbosity=0)
        if resow == 2:
            crop.sow_combos(grid(n), verbosity=0)
        if crop.check_bad() != ():
            return False
        B = crop.num_batches
        if B != nb or env.listdir(bdir) != sown or len(sown) != nb or crop.num_sown_batches != nb:
            return False
        return (crop.num_results == len(fin) and crop.missing_results() == tuple(i for i in range(1, B + 1) if i not in fin)
                and crop.is_ready_to_reap() == (len(fin) == B))


def body_dump_fails(E, B, i, f1, f2, f3, fresh, base):
    """the REAL write_to_disk runs (step-level file system): growing batch i fails while the result is being
    written (it cannot be pickled); whatever the write leaves behind, the batch does not count as finished, and
    growing it again properly makes the crop ready with exact results"""
    from ..env import Env
    from ..stubs.stepfs import Unpicklable
    from xyzpy.gen.combo_runner import combo_runner

    B = concretize(B, 1, 3)
    i = concretize(i, 1, B)
    fn = mkfn(base)
    with (Env("sym", fs="step") if E is SYM else E()) as env:
        crop = cp.Crop(fn=fn, name="t", parent_dir=env.parent, batchsize=1)
        crop.sow_combos(grid(B), verbosity=0)
        F = [k + 1 for k, f in enumerate([f1, f2, f3][:B]) if cbool(f) and k + 1 != i]
        for k in F:
            cp.grow(k, crop=crop, verbosity=0)
        try:
            cp.grow(i, crop=crop, fn=lambda **kw: Unpicklable(), verbosity=0)
            return False
        except TypeError:
            pass
        q = cp.Crop(name="t", parent_dir=env.parent) if cbool(fresh) else crop
        want_missing = tuple(k for k in range(1, B + 1) if k not in F)
        if q.num_results != len(F) or q.missing_results() != want_missing or q.is_ready_to_reap():
            return False
        if q.check_bad() != () or q.num_results != len(F):
            return False
        q.grow_missing()
        if not (q.is_ready_to_reap() and q.num_results == B == q.num_sown_batches and q.missing_results() == ()):
            return False
        return q.reap() == combo_runner(fn, grid(B), verbosity=0)


BODIES = {}
_G = globals()
_SIG = "B:int per:int f1:bool f2:bool f3:bool f4:bool fresh:bool i:int s1:bool s2:bool s3:bool s4:bool base:int"

CONDS = (
    split_conds(_G, "step", body_step, _SIG,
                ["1 <= B <= 3 and 1 <= per <= 2 and 1 <= i <= B", "not f4 and not s4",
                 "not s3 and (OP == 4 or not (s1 or s2))"],
                "op", [0, 1, 3, 4, 5, 6, 7, 8, 9], timeout=300, tiers=("quick",),
                bounds="pre-state: B<=3 batches (1-2 settings each), any finished subset, same or fresh Crop object; "
                       "then one operation with symbolic arguments; op: " + "; ".join("%d %s" % kv for kv in OPS.items()))
    + [make_cond(_G, "step_op2", body_step, _SIG,
                 ["1 <= B <= 3 and per == 1 and i == 1", "not f4 and not s4"], fixed=dict(op=2), timeout=300,
                 tiers=("quick",),
                 bounds="pre-state: B<=3 batches, any finished subset, same or fresh Crop; then Crop.grow(S) for "
                        "every subset S of the batch ids")]
    + split_conds(_G, "step4", body_step, _SIG.replace("B:int ", ""),
                  ["1 <= per <= 2 and 1 <= i <= 4"], "op", list(range(10)), fixed=dict(B=4),
                  timeout=900, tiers=("thorough",), bounds="as step with B=4 batches")
    + [make_cond(_G, "check_bad_uneven", body_uneven, "n:int nb:int f1:bool f2:bool f3:bool base:int",
                 ["3 <= n <= 5 and 2 <= nb <= 3"], timeout=300,
                 bounds="crops of 3-5 settings sown with num_batches 2-3 (uneven batch sizes), every finished subset: "
                        "check_bad on healthy results reports and deletes nothing; progress queries unchanged")]
    + [make_cond(_G, "resow_uneven", body_uneven, "n:int nb:int f1:bool f2:bool f3:bool base:int resow:int",
                 ["3 <= n <= 7 and 2 <= nb <= 3 and 1 <= resow <= 2"], timeout=300,
                 bounds="crops of 3-7 settings sown with num_batches 2-3 (with and without remainder) and sown again "
                        "with the same shape before / after any subset of batches is grown: the batch files on disk "
                        "are the same nb files, num_sown_batches == nb, and the progress queries are unchanged")]
    + [make_cond(_G, "dump_fails", body_dump_fails, "B:int i:int f1:bool f2:bool f3:bool fresh:bool base:int",
                 ["1 <= B <= 3 and 1 <= i <= B"], timeout=300,
                 bounds="the real write_to_disk on the step-level file system: B<=3 batches, any other batches "
                        "finished, growing batch i fails inside pickle.dump (unpicklable result): the batch does "
                        "not count as finished for any query, check_bad reports nothing, growing it again makes "
                        "the crop ready with exact results")]
    + [make_cond(_G, "history2", body_history, "o1:int a1:int o2:int a2:int base:int",
                 ["0 <= o1 <= 4 and 0 <= o2 <= 4 and 1 <= a1 <= 3 and 1 <= a2 <= 3"], fixed=dict(o3=0, a3=1, steps=2),
                 timeout=300, tiers=("quick",),
                 bounds="all histories of length 2 over {grow a, delete result a, reload, re-sow, grow_missing} on a "
                        "3-batch crop from the empty state; all queries after every step")]
    + split_conds(_G, "history3", body_history, "a1:int o2:int a2:int o3:int a3:int base:int",
                  ["0 <= o2 <= 4 and 0 <= o3 <= 4 and 1 <= a1 <= 3 and 1 <= a2 <= 3 and 1 <= a3 <= 3"],
                  "o1", [0, 1, 2, 3, 4], timeout=900, tiers=("thorough",),
                  bounds="all histories of length 3 over the same five operations")
)

ASSUMPTIONS = [
    "file system replaced by FakeFS in object mode (an unreadable file is a marker on which read_from_disk raises "
    "EOFError); pickling of the function by an identity stub",
    "inductive step under the stated representation invariant; states violating it (stale files of a sow with a "
    "different batch count, half-written files) belong to C10",
    "histories longer than 3 are covered by induction over the invariant, not explored",
]
