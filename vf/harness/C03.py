"""C03 - labelled outputs (Dataset and DataFrame) name every number correctly.

Real code executed: combo_runner_to_ds/_to_df, case_runner_to_ds/_to_df, results_to_ds,
results_to_df, parse_var_names, parse_var_dims, parse_var_coords, parse_combo_results,
multi_concat, get_ndim_first, combo_runner_core, Runner.__init__/run_combos/run_cases, label.
xarray / numpy / pandas are replaced by MiniXR / MiniNP / MiniPD (conformance-checked).
"""
from ..common import Cond, concretize, cbool, done, HarnessError, make_cond, split_conds
from ..env import Env
from ..stubs import minixr as mx

import xyzpy.gen.combo_runner as cr
import xyzpy.gen.case_runner as ca
import xyzpy.gen.prepare as pr
import xyzpy.gen.farming as fm
from xyzpy.gen.farming import Runner, label

FUNCS = [cr.combo_runner_to_ds, cr.results_to_ds, cr.results_to_df, cr.multi_concat, cr.get_ndim_first,
         ca.case_runner_to_ds, pr.parse_var_names, pr.parse_var_dims, pr.parse_combo_results, fm.Runner, fm.label]
CONFORMANCE = ("minixr", "minipd", "random")

A = [10, 11, 12]
B = [20, 21]
W = [100, 200]


def SYM(**kw):
    kw.setdefault("xr", True)
    kw.setdefault("pd", True)
    return Env("sym", **kw)


def REAL(**kw):
    kw.pop("xr", None)
    kw.pop("pd", None)
    return Env("real", **kw)


# ------------------------------------------------------------- adapters
def _is_da(env, ds):
    if env.mode == "sym":
        return isinstance(ds, mx.DataArray)
    import xarray

    return isinstance(ds, xarray.DataArray)


def ds_dims(env, ds, var):
    if _is_da(env, ds):               # a sweep of DataArray results is a DataArray (named like the results)
        return tuple(ds.dims) if ds.name == var else None
    return tuple(ds[var].dims)


def ds_coord(env, ds, dim):
    if env.mode == "sym":
        if isinstance(ds, mx.DataArray):
            return list(ds.coords_[dim]) if dim in ds.coords_ and dim not in ds.nocoord else None
        return list(ds._coords[dim]) if dim in ds._coords and dim not in ds._nocoord else None
    return [x.item() if hasattr(x, "item") else x for x in ds[dim].values] if dim in ds.coords else None


def ds_value(env, ds, var, labels):
    """the cell of `var` at {dim: label}"""
    if env.mode == "sym":
        da = ds if isinstance(ds, mx.DataArray) else ds._vars[var]
        return da.cells[tuple(labels[d] for d in da.dims)]
    da = ds if _is_da(env, ds) else ds[var]
    v = da.sel(labels).values.item()
    return v


def is_missing(v):
    return v is None or (isinstance(v, float) and v != v)


def rows_of(env, df):
    if env.mode == "sym":
        return [dict(r) for r in df.rows]
    return [dict(r) for r in df.to_dict("records")]


# ------------------------------------------------------------- the swept function
def payload(base, a, b):
    # stays an int for float-valued coordinates (10.5, 20.5): payloads are solver ints
    return base + int(100 * a) + int(2 * b)


def make_fn(base, nvars, idim, log, with_t, with_res, with_w, aslist=False):
    """fn(a, b[, t][, res][, w]) -> x | (x, y);  y has internal dimension 'w' (2 entries) when idim;
    aslist: the two outputs come back as a list instead of a tuple"""

    def fn(a, b=0, t=0, res=0, w=None):
        log.append((a, b))
        x = payload(base, a, b)
        if nvars == 1:
            return [x, x + 7] if idim else x
        y = [x + 1, x + 2 + t] if idim else x + 1
        return [x, y] if aslist else (x, y)

    return fn


def spell_var_dims(sp, nvars, idim):
    """accepted spellings of the same description"""
    if not idim:
        return None
    if nvars == 1:
        return ["w", {"x": "w"}, {"x": ("w",)}, ["w"], [("w",)]][sp]
    return [{"y": "w"}, {"y": ("w",), "x": ()}, {("y",): ["w"]}, [[], ["w"]], ((), ("w",))][sp]


def check_ds(env, ds, grid_args, coords, nvars, idim, base, t, const_is_dim, extra_attrs, present):
    """the Dataset oracle; `present(a, b)` says whether that point was requested"""
    names = ["x", "y"][:nvars]
    for vi, name in enumerate(names):
        internal = ("w",) if (idim and (nvars == 1 or name == "y")) else ()
        if ds_dims(env, ds, name) != tuple(grid_args) + internal:
            return False
    for arg in grid_args:
        if ds_coord(env, ds, arg) != coords[arg]:
            return False
    if idim:
        if ds_coord(env, ds, "w") != W:
            return False
    for a in coords["a"]:
        for b in coords.get("b", [0]):
            lab = {"a": a}
            if "b" in coords:
                lab["b"] = b
            x = payload(base, a, b)
            want_x = [x, x + 7] if (nvars == 1 and idim) else [x]
            for wi, wv in enumerate(want_x):
                l2 = dict(lab)
                if nvars == 1 and idim:
                    l2["w"] = W[wi]
                got = ds_value(env, ds, "x", l2)
                if present(a, b):
                    if got != wv:
                        return False
                elif not is_missing(got):
                    return False
            if nvars == 2:
                want_y = [x + 1, x + 2 + t] if idim else [x + 1]
                for wi, wv in enumerate(want_y):
                    l2 = dict(lab)
                    if idim:
                        l2["w"] = W[wi]
                    got = ds_value(env, ds, "y", l2)
                    if present(a, b):
                        if got != wv:
                            return False
                    elif not is_missing(got):
                        return False
    attrs = dict(ds.attrs)
    if "res" in attrs or "res" in list(ds.coords) or "res" in list(ds.data_vars):
        return False
    if not const_is_dim and ("t" not in attrs or attrs["t"] != t):
        return False
    for k, v in extra_attrs.items():
        if attrs.get(k) != v:
            return False
    return True


# ------------------------------------------------------------- grids -> Dataset
def body_grid_ds(E, entry, n1, n2, nvars, idim, sp, const_is_dim, base, t, j1, j2, j3, j4, j5, shuf):
    entry = concretize(entry, 0, 2)
    n1 = concretize(n1, 1, 3)
    n2 = concretize(n2, 0, 2)        # 0 => one swept argument only
    nvars = concretize(nvars, 1, 2)
    idim = cbool(idim)
    sp = concretize(sp, 0, 4)
    const_is_dim = cbool(const_is_dim) and idim
    N = n1 * max(n2, 1)
    js = [0, j1, j2, j3, j4, j5][:N]
    log = []
    fn = make_fn(base, nvars, idim, log, True, True, const_is_dim)
    combos = {"a": A[:n1]}
    if n2:
        combos["b"] = B[:n2]
    var_names = ["x", "y"][:nvars] if not (nvars == 1 and sp % 2 == 0) else "x"
    var_dims = spell_var_dims(sp, nvars, idim)
    constants = {"t": t}
    var_coords = {}
    if idim:
        if const_is_dim:
            constants["w"] = list(W)
        else:
            var_coords["w"] = list(W)
    resources = {"res": 5}
    attrs = {"foo": "bar"}
    with E(pools=[js]) as env:
        opts = {}
        if cbool(shuf):
            opts["shuffle"] = env.seed_for(js, N)
        if entry == 0:
            ds = cr.combo_runner_to_ds(fn, combos, var_names, var_dims=var_dims, var_coords=var_coords,
                                       constants=constants, resources=resources, attrs=attrs, verbosity=0, **opts)
        else:
            kw = dict(var_dims=var_dims, var_coords=var_coords, constants=constants, resources=resources, attrs=attrs)
            if entry == 1:
                r = Runner(fn, var_names, **kw)
            else:
                r = label(var_names, **kw)(fn)
            ds = r.run_combos(combos, verbosity=0, **opts)
            if r.last_ds is not ds:
                return False
        if len(log) != N:
            return False
        coords = {k: list(v) for k, v in combos.items()}
        return check_ds(env, ds, list(combos), coords, nvars, idim, base, t, const_is_dim, attrs, lambda a, b: True)


# ------------------------------------------------------------- cases -> Dataset
CASES = [(12, 20), (10, 21), (11, 20), (10, 20)]
CASES_MIXED = [(12, 20), (10.5, 21), (11, 20.5), (10.5, 20)]      # int and float values of one argument


def body_case_ds(E, entry, k, dictsp, nvars, idim, sp, base, t, j1, j2, j3, shuf, mixed=False):
    entry = concretize(entry, 0, 1)
    k = concretize(k, 1, 4)
    nvars = concretize(nvars, 1, 2)
    idim = cbool(idim)
    sp = concretize(sp, 0, 4)
    js = [0, j1, j2, j3][:k]
    log = []
    fn = make_fn(base, nvars, idim, log, True, True, False)
    pts = (CASES_MIXED if mixed else CASES)[:k]
    # dict spelling: every other case lists its keys in the opposite order
    cases = [({"a": a, "b": b} if i % 2 == 0 else {"b": b, "a": a}) for i, (a, b) in enumerate(pts)] \
        if cbool(dictsp) else list(pts)
    fn_args = None if cbool(dictsp) else ("a", "b")
    var_names = ["x", "y"][:nvars]
    var_dims = spell_var_dims(sp, nvars, idim)
    var_coords = {"w": list(W)} if idim else {}
    with E(pools=[js]) as env:
        opts = {}
        if cbool(shuf):
            opts["shuffle"] = env.seed_for(js, k)
        if entry == 0:
            ds = ca.case_runner_to_ds(fn, fn_args, cases, var_names, var_dims=var_dims, var_coords=var_coords,
                                      constants={"t": t}, resources={"res": 5}, attrs={"foo": "bar"}, verbosity=0,
                                      **opts)
        else:
            r = Runner(fn, var_names, fn_args=("a", "b"), var_dims=var_dims, var_coords=var_coords,
                       constants={"t": t}, resources={"res": 5}, attrs={"foo": "bar"})
            ds = r.run_cases(cases, verbosity=0, **opts)
        if sorted(log) != sorted(pts):
            return False
        coords = {"a": sorted(set(a for a, _ in pts)), "b": sorted(set(b for _, b in pts))}
        return check_ds(env, ds, ["a", "b"], coords, nvars, idim, base, t, False, {"foo": "bar"},
                        lambda a, b: (a, b) in pts)


# ------------------------------------------------------------- DataFrame rows
def body_df(E, entry, n, nvars, base, t, j1, j2, j3, j4, shuf, aslist=False):
    entry = concretize(entry, 0, 3)     # 0 combo_runner_to_df, 1 case_runner_to_df, 2 Runner.run_combos(to_df), 3 run_cases
    n = concretize(n, 1, 5)
    nvars = concretize(nvars, 1, 2)
    js = [0, j1, j2, j3, j4][:n]
    log = []
    fn = make_fn(base, nvars, False, log, True, True, False, aslist=cbool(aslist))
    var_names = ["x", "y"][:nvars]
    if n == 4:
        combos, pts = {"a": A[:2], "b": B[:2]}, [(a, b) for a in A[:2] for b in B[:2]]
    else:
        aa = (A + [13, 14])[:n]
        combos, pts = {"a": aa, "b": B[:1]}, [(a, 20) for a in aa]
    with E(pools=[js]) as env:
        opts = {}
        if cbool(shuf):
            opts["shuffle"] = env.seed_for(js, n)
        common = dict(constants={"t": t}, resources={"res": 5}, attrs={"foo": "bar"}, verbosity=0, **opts)
        if entry == 0:
            df = cr.combo_runner_to_df(fn, combos, var_names, **common)
        elif entry == 1:
            df = ca.case_runner_to_df(fn, ("a", "b"), pts, var_names, **common)
        else:
            r = Runner(fn, var_names, fn_args=("a", "b"), constants={"t": t}, resources={"res": 5},
                       attrs={"foo": "bar"})
            if entry == 2:
                df = r.run_combos(combos, to_df=True, verbosity=0, **opts)
            else:
                df = r.run_cases(pts, to_df=True, verbosity=0, **opts)
        rows = rows_of(env, df)
        if len(rows) != len(pts):
            return False
        seen = []
        for row in rows:
            if "res" in row:
                return False
            a, b = row["a"], row["b"]
            if (a, b) not in pts or (a, b) in seen:
                return False
            seen.append((a, b))
            x = payload(base, a, b)
            if row["x"] != x:
                return False
            if nvars == 2 and row["y"] != x + 1:
                return False
            if row.get("t") != t or row.get("foo") != "bar":
                return False
        return True


# ------------------------------------------------------------- var_names=None (labelled results)
def body_auto(E, kind, n1, n2, base, vary=False):
    kind = concretize(kind, 0, 2)      # fn returns 0 Dataset, 1 DataArray, 2 dict
    n1 = concretize(n1, 1, 3)
    n2 = concretize(n2, 1, 2)
    vary = cbool(vary) and kind != 2   # the internal coordinate's labels depend on the swept argument a
    with E() as env:
        if env.mode == "sym":
            XR = mx.MiniXRModule
            arr = mx.MiniNP.asarray
        else:
            import numpy
            import xarray

            XR, arr = xarray, numpy.asarray

        def wlabels(a):
            return [w + (a - 10) for w in W] if vary else list(W)

        def fn(a, b):
            x = payload(base, a, b)
            if kind == 0:
                return XR.Dataset(coords={"w": wlabels(a)}, data_vars={"x": ((), x), "y": (("w",), arr([x + 1, x + 2]))})
            if kind == 1:
                return XR.Dataset(coords={"w": wlabels(a)}, data_vars={"y": (("w",), arr([x + 1, x + 2]))})["y"]
            return {"x": x, "y": (("w",), arr([x + 1, x + 2]))}

        combos = {"a": A[:n1], "b": B[:n2]}
        ds = cr.combo_runner_to_ds(fn, combos, var_names=None,
                                   attrs={"foo": "bar"}, verbosity=0)
        if dict(ds.attrs).get("foo") != "bar":
            return False                      # extra attributes are recorded whatever the output description
        allw = sorted(set(w for a in combos["a"] for w in wlabels(a)))
        for a in combos["a"]:
            for b in combos["b"]:
                x = payload(base, a, b)
                if kind != 1 and ds_value(env, ds, "x", {"a": a, "b": b}) != x:
                    return False
                if kind == 2:
                    # a dict result carries no coordinate for 'w': positions label it
                    for wi in (0, 1):
                        if ds_value(env, ds, "y", {"a": a, "b": b, "w": wi}) != x + 1 + wi:
                            return False
                    continue
                mine = wlabels(a)
                for wv in allw:
                    got = ds_value(env, ds, "y", {"a": a, "b": b, "w": wv})
                    if wv in mine:
                        if got != x + 1 + mine.index(wv):
                            return False        # the value the function returned at exactly this label
                    elif not is_missing(got):
                        return False
        if ds_coord(env, ds, "a") != combos["a"] or ds_coord(env, ds, "b") != combos["b"]:
            return False
        if kind != 2 and ds_coord(env, ds, "w") != allw:
            return False
        return ds_dims(env, ds, "y") == ("a", "b", "w")


def body_auto_const(E, kind, n1, base):
    """var_names=None and a constant that names a dimension of the returned objects: it is a coordinate"""
    kind = concretize(kind, 0, 1)
    n1 = concretize(n1, 1, 2)
    with E() as env:
        if env.mode == "sym":
            XR, arr = mx.MiniXRModule, mx.MiniNP.asarray
        else:
            import numpy
            import xarray

            XR, arr = xarray, numpy.asarray

        def fn(a, w, t):
            x = payload(base, a, 0)
            ds = XR.Dataset(data_vars={"y": (("w",), arr([x + 1, x + 2]))})
            return ds if kind == 0 else ds["y"]

        ds = cr.combo_runner_to_ds(fn, {"a": A[:n1]}, var_names=None, constants={"w": list(W), "t": 5}, verbosity=0)
        if ds_coord(env, ds, "w") != list(W):
            return False
        attrs = dict(ds.attrs)
        if "w" in attrs or attrs.get("t") != 5:
            return False
        for a in A[:n1]:
            for wi, wv in enumerate(W):
                if ds_value(env, ds, "y", {"a": a, "w": wv}) != payload(base, a, 0) + 1 + wi:
                    return False
        return True


def body_run_constants(E, to_df, base, t1, t2):
    """constants given for one run apply to that run only: a later run sees the Runner's stored constants"""
    with E() as env:
        def fn(a, t=0):
            return payload(base, a, 0) + 1000 * t

        r = Runner(fn, "x", constants={"t": t1})
        first = r.run_combos({"a": A[:2]}, constants={"t": t2}, verbosity=0)
        for a in A[:2]:
            if ds_value(env, first, "x", {"a": a}) != payload(base, a, 0) + 1000 * t2:
                return False
        if dict(first.attrs).get("t") != t2:
            return False
        if cbool(to_df):
            rows = rows_of(env, r.run_cases([(a,) for a in A[:2]], to_df=True, verbosity=0))
            return all(row["t"] == t1 and row["x"] == payload(base, row["a"], 0) + 1000 * t1 for row in rows)
        second = r.run_combos({"a": A[:2]}, verbosity=0)
        if dict(second.attrs).get("t") != t1 or dict(r._constants) != {"t": t1}:
            return False
        return all(ds_value(env, second, "x", {"a": a}) == payload(base, a, 0) + 1000 * t1 for a in A[:2])


BODIES = {}
_G = globals()
_J = "0 <= j1 <= 1 and 0 <= j2 <= 2 and 0 <= j3 <= 3 and 0 <= j4 <= 4 and 0 <= j5 <= 5"
_GS = ("entry:int n1:int n2:int nvars:int idim:bool sp:int const_is_dim:bool base:int t:int "
       "j1:int j2:int j3:int j4:int j5:int shuf:bool")

CONDS = (
    split_conds(_G, "grid_ds", body_grid_ds, _GS.replace("entry:int ", ""),
                ["1 <= n1 <= 3 and 0 <= n2 <= 2 and 1 <= nvars <= 2 and 0 <= sp <= 4 and not shuf",
                 "j1 == 0 and j2 == 0 and j3 == 0 and j4 == 0 and j5 == 0", "idim or (sp == 0 and not const_is_dim)"],
                "entry", [0, 1, 2], timeout=400,
                bounds="grids of 1-2 swept arguments (1-3 x 0-2 values), 1-2 output variables, optional internal "
                       "dimension, five spellings of var_names/var_dims, constant that is / is not an internal "
                       "dimension, resource, extra attribute; entry: 0 combo_runner_to_ds 1 Runner.run_combos 2 label()")
    + [make_cond(_G, "grid_ds_shuffled", body_grid_ds, _GS,
                 ["2 <= n1 <= 2 and 1 <= n2 <= 2 and nvars == 2 and idim and sp == 0 and shuf and not const_is_dim",
                  _J, "j4 == 0 and j5 == 0", "0 <= entry <= 1"], timeout=400,
                 bounds="2x1 and 2x2 grids, two variables (one with an internal dimension), every shuffle permutation, "
                        "function and Runner entry points")]
    + split_conds(_G, "case_ds", body_case_ds,
                  "k:int dictsp:bool nvars:int idim:bool sp:int base:int t:int j1:int j2:int j3:int shuf:bool",
                  ["1 <= k <= 4 and 1 <= nvars <= 2 and 0 <= sp <= 4 and not shuf and j1 == 0 and j2 == 0 and j3 == 0",
                   "idim or sp == 0"], "entry", [0, 1], timeout=400,
                  bounds="1-4 cases over (a, b) (tuple or dict spelling, unsorted), 1-2 variables, optional internal "
                         "dimension, five spellings; unrequested points must be missing; entry: 0 case_runner_to_ds "
                         "1 Runner.run_cases")
    + [make_cond(_G, "case_ds_mixed", body_case_ds, "entry:int k:int dictsp:bool base:int t:int",
                 ["0 <= entry <= 1 and 2 <= k <= 4"],
                 fixed=dict(nvars=1, idim=False, sp=0, j1=0, j2=0, j3=0, shuf=False, mixed=True), timeout=300,
                 bounds="2-4 cases whose values for one argument mix int and float: each coordinate is the sorted "
                        "union of the values")]
    + [make_cond(_G, "case_ds_shuffled", body_case_ds,
                 "entry:int k:int dictsp:bool nvars:int idim:bool sp:int base:int t:int j1:int j2:int j3:int shuf:bool",
                 ["0 <= entry <= 1 and 2 <= k <= 4 and nvars == 2 and idim and sp == 0 and shuf and not dictsp",
                  "0 <= j1 <= 1 and 0 <= j2 <= 2 and 0 <= j3 <= 3"], timeout=400,
                 bounds="2-4 cases, two variables, every shuffle permutation")]
    + split_conds(_G, "df", body_df, "n:int nvars:int base:int t:int j1:int j2:int j3:int j4:int shuf:bool",
                  ["1 <= n <= 5 and 1 <= nvars <= 2", "0 <= j1 <= 1 and 0 <= j2 <= 2 and 0 <= j3 <= 3 and 0 <= j4 <= 4",
                   "shuf or (j1 == 0 and j2 == 0 and j3 == 0 and j4 == 0)", "n <= 4 or nvars == 1"],
                  "entry", [0, 1, 2, 3], timeout=600,
                  bounds="DataFrame form: 1-5 settings, 1-2 output columns, un-shuffled and every shuffle permutation; "
                         "each row must pair a setting with that setting's outputs; entry: 0 combo_runner_to_df "
                         "1 case_runner_to_df 2 Runner.run_combos(to_df) 3 Runner.run_cases(to_df)")
    + [make_cond(_G, "df_list", body_df, "entry:int n:int base:int t:int",
                 ["0 <= entry <= 3 and 1 <= n <= 3"], fixed=dict(nvars=2, j1=0, j2=0, j3=0, j4=0, shuf=False, aslist=True),
                 timeout=200, bounds="DataFrame form, two output columns returned as a list [x, y] instead of a tuple "
                                     "(accepted like the Dataset form): one column per output")]
    + [make_cond(_G, "auto_const", body_auto_const, "kind:int n1:int base:int", ["0 <= kind <= 1 and 1 <= n1 <= 2"],
                 timeout=120,
                 bounds="var_names=None, function returning a Dataset / DataArray with an un-labelled dimension named "
                        "by a constant: the constant becomes that dimension's coordinate, other constants attributes"),
       make_cond(_G, "run_constants", body_run_constants, "to_df:bool base:int t1:int t2:int", ["t1 != t2"],
                 timeout=120,
                 bounds="Runner.run_combos(constants=...) followed by a run without: the override applies to that "
                        "run only (Dataset and DataFrame form)")]
    + [make_cond(_G, "auto", body_auto, "kind:int n1:int n2:int base:int vary:bool",
                 ["0 <= kind <= 2 and 1 <= n1 <= 3 and 1 <= n2 <= 2"], timeout=300,
                 bounds="var_names=None with the function returning a Dataset / DataArray / dict, grids up to 3x2; "
                        "internal coordinate labels equal for all results or depending on a swept argument")]
)

ASSUMPTIONS = [
    "xarray / numpy / pandas replaced by MiniXR / MiniNP / MiniPD (differentially checked); xarray's own "
    "constructor / alignment semantics and dtype promotion are outside the claim",
    "`random` replaced by NDRandom; tqdm by a no-op",
    "grid coordinate values are concrete (10.., 20..); payloads, the constant and the payload base are symbolic",
    "grids beyond 3x2 and more than 2 output variables / 1 internal dimension are outside the claim",
]


def classify(cond, args, detail):
    if cond.startswith("df") and args.get("shuf"):
        return "to_df-with-shuffle-mispairs-rows"
    if args.get("sp") in (3, 4) and args.get("idim") and "IndexError" in (detail or ""):
        return "parse_var_dims-empty-first-entry"
    return None
