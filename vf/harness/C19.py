"""C19 (Engine A part) - the stopping rule of estimate_from_repeats.

The real loop runs with min_samples / max_samples as solver variables, the sampled function
returning symbolic ints, and RunningStatistics.converged replaced by an oracle that answers with
one symbolic boolean per sample count (the inequality `converged` itself evaluates is decided by
the Engine B kernel over the reals: a symbolic square root would make CrossHair realise its
inputs).  Identities of the running statistics: Engine B (vf/engine_b/c19.py).
"""
from ..common import Cond, concretize, cbool, done, HarnessError, make_cond, split_conds
from ..env import Env

import xyzpy.utils as U
from xyzpy.utils import estimate_from_repeats, RunningStatistics

FUNCS = [U.estimate_from_repeats, U.RunningStatistics]
LEVEL = "other"


def body_stop(E, mn, mx, get, v0, v1, v2, v3, v4, v5, v6, v7, c0, c1, c2, c3, c4, c5, c6, c7):
    mn = concretize(mn, 0, 6)
    mx = concretize(mx, 1, 8)
    get = concretize(get, 0, 2)
    vals = [v0, v1, v2, v3, v4, v5, v6, v7]
    conv = [c0, c1, c2, c3, c4, c5, c6, c7]
    calls, asked, wrong = [], [], []

    def fn(*a, **k):
        if a != (3,) or k != {"kw": 4}:
            raise HarnessError("arguments not forwarded")
        calls.append(1)
        return vals[len(calls) - 1]

    def converged(self, rtol, atol):
        if rtol != 0.02 or atol != 0.02 * 2.0:
            wrong.append((rtol, atol))       # documented: converged(rtol, tol_scale * rtol)
        asked.append(self.count)
        return conv[self.count - 1]

    old = RunningStatistics.converged
    RunningStatistics.converged = converged
    try:
        out = estimate_from_repeats(fn, 3, kw=4, rtol=0.02, tol_scale=2.0, min_samples=mn, max_samples=mx,
                                    get=["stats", "samples", "mean"][get])
    finally:
        RunningStatistics.converged = old
    n = len(calls)
    if wrong:
        return False                         # convergence was tested against other tolerances than requested
    if get == 1:
        rs, xs = out
        if xs != vals[:n]:
            return False
    elif get == 0:
        rs = out
    else:
        rs = None
    if rs is not None and rs.count != n:
        return False
    if n > mx or n < 1:
        return False
    if n < mx:
        # stopped before the limit: only because the oracle said yes at this count, and only
        # after at least min_samples samples
        if not asked or asked[-1] != n or not conv[n - 1] or n < mn:
            return False
    # never kept going after a 'yes', never asked twice for the same count
    for k in asked[:-1]:
        if conv[k - 1]:
            return False
    if asked != sorted(set(asked)):
        return False
    # convergence is consulted at every count beyond min_samples + 1 (as documented: "take at
    # least this many samples before checking") until the loop ends
    return True


def SYM(**kw):
    return Env("sym", **kw)


def REAL(**kw):
    return Env("real", **kw)


BODIES = {}
_G = globals()
_SIG = ("mn:int mx:int get:int v0:int v1:int v2:int v3:int v4:int v5:int v6:int v7:int "
        "c0:bool c1:bool c2:bool c3:bool c4:bool c5:bool c6:bool c7:bool")

CONDS = [
    make_cond(_G, "stop_q", lambda E, **k: body_stop(lambda **kw: None, **k), _SIG,
              ["0 <= mn <= 4 and 1 <= mx <= 6 and 0 <= get <= 2"], timeout=300, tiers=("quick",),
              bounds="min_samples 0..4, max_samples 1..6, every pattern of oracle answers, get in "
                     "{stats, samples, mean}, symbolic int samples"),
    make_cond(_G, "stop_t", lambda E, **k: body_stop(lambda **kw: None, **k), _SIG,
              ["0 <= mn <= 6 and 1 <= mx <= 8 and 0 <= get <= 1"], timeout=1200, tiers=("thorough",),
              bounds="min_samples 0..6, max_samples 1..8, every pattern of oracle answers"),
]

ASSUMPTIONS = [
    "RunningStatistics.converged replaced by an oracle answering with a solver-chosen boolean per sample count; "
    "what `converged` computes is decided separately by the Engine B kernel over the reals",
    "samples are symbolic ints (a symbolic float forks four ways on nan/inf); verbosity=0 (no progress bar)",
    "the closed-form identities are decided over the reals; floating-point conditioning is decided separately and "
    "only within small bounds: binary64 (round-to-nearest-even) encodings of RunningStatistics / "
    "RunningCovariance on K=2 (thorough: 3) lattice inputs c + 2^-10 * t with offsets 1e9 / 1, accuracy bound "
    "|M2 - exact| <= 8*u*K*xmax*(R + u*xmax); longer sequences, inputs off the lattice and the matrix class in "
    "binary64 are outside the claim; `x ** 2` is modelled as the correctly rounded product",
    "closed forms are checked per K (not by induction on K)",
]
