"""C11 - concurrent growers and a waiting reaper always agree, under every interleaving.

Encoding of "all interleavings" without threads: the only shared state is the set of result
files and growers of distinct batches touch disjoint files.  Each grower runs first, through the
real code, against StepFS, which records the successive states of every file it touches.  The
reaper / poller then run through the real code against a view in which each file is at a
solver-chosen, monotonically advancing position of its state sequence; the position is advanced
by a solver-chosen amount immediately before every observation of that file (lazy and
saturating), and Clock.sleep forces progress (fair scheduler).  For independent writers this
covers every interleaving up to partial-order equivalence: a reader step only distinguishes the
prefix of each file it looks at.

Real code executed: grow, write_to_disk, read_from_disk, Reaper.wait_to_load/_load,
Crop.reap(wait=True), calc_progress, num_results, is_ready_to_reap, missing_results.
"""
from ..common import Cond, concretize, cbool, done, HarnessError, make_cond, split_conds
from ..env import Env, WaitTimeout
from .cropkit import CROP_FUNCS, grid, mkfn, crop_dir

import xyzpy.gen.cropping as cp
from xyzpy.gen.combo_runner import combo_runner

FUNCS = CROP_FUNCS
CONFORMANCE = ("fakefs", "pickle")
NO_REAL = ()


def SYM(**kw):
    kw.setdefault("fs", "step")
    return Env("sym", **kw)


def REAL(**kw):
    kw.pop("fs", None)
    return Env("real", **kw)


def start_real_growers(env, nb, K, deltas, buf=False, first=1, only=None):
    """real mode: growers are real threads gated step by step on the real disk"""
    from ..realsched import RealSteps

    rs = RealSteps(K)
    rs.buffered = buf
    rs.install(env, cp)
    rdir = crop_dir(env) + "/results"
    for g in (only if only is not None else range(first, nb + 1)):
        gcrop = cp.Crop(name="t", parent_dir=env.parent)
        rs.start_writer((lambda gg, cc: (lambda: cp.grow(gg, crop=cc, verbosity=0)))(g, gcrop),
                        paths={rdir + "/xyz-result-%d.jbdmp" % g})
    rs.deltas = [int(d) for d in deltas]
    return rs


def record_growers(env, crop, nb, first=1, only=None):
    """run each grower alone from the sown state; return (base files, per-grower logs)"""
    fs = env.fs
    base = dict(fs.files)
    logs = []
    for g in (only if only is not None else range(first, nb + 1)):
        fs.files = dict(base)
        fs.start_recording()
        cp.grow(g, crop=crop, verbosity=0)
        logs.append(fs.stop_recording())
    fs.files = dict(base)
    return base, logs


def body_wait(E, nb, per, K, base, d0, d1, d2, d3, d4, d5, d6, d7, d8, d9, buf=False):
    nb = concretize(nb, 1, 2)
    per = concretize(per, 1, 2)
    K = concretize(K, 2, 3)
    deltas = [d0, d1, d2, d3, d4, d5, d6, d7, d8, d9]
    fn = mkfn(base)
    with E() as env:
        n = nb * per
        ref = combo_runner(fn, grid(n), verbosity=0)
        crop = cp.Crop(fn=fn, name="t", parent_dir=env.parent, batchsize=per)
        crop.sow_combos(grid(n), verbosity=0)
        rs = None
        if env.mode == "sym":
            env.fs.K = K
            env.fs.buffered = cbool(buf)
            bfiles, logs = record_growers(env, crop, nb)
            env.fs.begin_timeline(bfiles, logs, deltas)
        else:
            rs = start_real_growers(env, nb, K, deltas, cbool(buf))
        reader = cp.Crop(name="t", parent_dir=env.parent)
        try:
            out = reader.reap(wait=True)       # must neither fail nor use a partly written result
        finally:
            if rs is not None:
                rs.finish_all()
        return out == ref and not env.exists(crop_dir(env))


def body_wait_ai(E, K, base, d0, d1, d2, d3, d4, d5, d6, d7, d8, d9, buf=False, ai=True, pre=1):
    """batch `pre` (1 or 2) already finished, the other one being grown: reap(wait=True, allow_incomplete=...) waits for the grower
    (`wait` takes priority: Reaper only uses the stand-in `if not wait`) and returns the full direct-run result"""
    K = concretize(K, 2, 3)
    deltas = [d0, d1, d2, d3, d4, d5, d6, d7, d8, d9]
    fn = mkfn(base)
    with E() as env:
        ref = combo_runner(fn, grid(2), verbosity=0)
        crop = cp.Crop(fn=fn, name="t", parent_dir=env.parent, batchsize=1)
        crop.sow_combos(grid(2), verbosity=0)
        pre = concretize(pre, 1, 2)
        cp.grow(pre, crop=crop, verbosity=0)
        rs = None
        if env.mode == "sym":
            env.fs.K = K
            env.fs.buffered = cbool(buf)
            bfiles, logs = record_growers(env, crop, 2, only=[3 - pre])
            env.fs.begin_timeline(bfiles, logs, deltas)
        else:
            rs = start_real_growers(env, 2, K, deltas, cbool(buf), only=[3 - pre])
        reader = cp.Crop(name="t", parent_dir=env.parent)
        try:
            out = reader.reap(wait=True, allow_incomplete=cbool(ai))
        finally:
            if rs is not None:
                rs.finish_all()
        return out == ref


def body_poll(E, nb, K, base, d0, d1, d2, d3, d4, d5, d6, d7, d8, d9, buf=False):
    """a progress poller: num_results / is_ready_to_reap / missing_results during the growing"""
    nb = concretize(nb, 1, 2)
    K = concretize(K, 2, 3)
    deltas = [d0, d1, d2, d3, d4, d5, d6, d7, d8, d9]
    fn = mkfn(base)
    with E() as env:
        crop = cp.Crop(fn=fn, name="t", parent_dir=env.parent, batchsize=1)
        crop.sow_combos(grid(nb), verbosity=0)
        rdir = crop_dir(env) + "/results"
        rs = None
        if env.mode == "sym":
            fs = env.fs
            fs.K = K
            fs.buffered = cbool(buf)
            bfiles, logs = record_growers(env, crop, nb)
            fs.begin_timeline(bfiles, logs, deltas)

            def complete_now():
                out = []
                for i in range(1, nb + 1):
                    st = fs.files.get(rdir + "/xyz-result-%d.jbdmp" % i)
                    if st is not None and st.complete():
                        out.append(i)
                return out
        else:
            import pickle

            rs = start_real_growers(env, nb, K, deltas, cbool(buf))

            def complete_now():
                out = []
                for i in range(1, nb + 1):
                    try:
                        with open(rdir + "/xyz-result-%d.jbdmp" % i, "rb") as f:
                            pickle.load(f)
                        out.append(i)
                    except Exception:  # noqa
                        pass
                return out

        poller = cp.Crop(name="t", parent_dir=env.parent)
        try:
            return _poll(env, poller, nb, complete_now, rs)
        finally:
            if rs is not None:
                rs.finish_all()


def _poll(env, poller, nb, complete_now, rs):
    if True:

        for _ in range(3):
            n = poller.num_results
            if n > len(complete_now()):
                return False               # counted a result that is only partly written
            ready = poller.is_ready_to_reap()
            if ready and len(complete_now()) != nb:
                return False
            miss = poller.missing_results()
            for i in range(1, nb + 1):
                if i not in miss and i not in complete_now():
                    return False           # reported as done although not completely written
        if rs is None:
            env.fs.finish_timeline()
        else:
            rs.finish_all()
            rs.deltas = None
        return poller.is_ready_to_reap() and poller.num_results == nb and poller.missing_results() == ()


def body_same_batch(E, K, buf, base, i, j, d0, d1, d2, d3):
    """the SAME batch grown by two workers at once, and a waiting reaper: grower A performs i file
    operations, then grower B performs j, then A finishes, then B finishes (every i, j: the two-switch family
    of interleavings) x every placement of the reader's observations"""
    K = concretize(K, 2, 2)
    i = concretize(i, 0, 4)
    j = concretize(j, 0, 4)
    fn = mkfn(base)
    with E() as env:
        ref = combo_runner(fn, grid(2), verbosity=0)
        crop = cp.Crop(fn=fn, name="t", parent_dir=env.parent, batchsize=2)
        crop.sow_combos(grid(2), verbosity=0)
        rs = None
        if env.mode == "sym":
            fs = env.fs
            fs.K = K
            fs.buffered = cbool(buf)
            basef = dict(fs.files)
            oplists = []
            for g in range(2):
                fs.files = dict(basef)
                cp.os.pid = 4242 + g               # two different worker processes
                fs.start_op_recording()
                cp.grow(1, crop=crop, verbosity=0)
                oplists.append(fs.stop_op_recording())
            cp.os.pid = 5000
            fs.files = dict(basef)
            order = [0] * i + [1] * j + [0] * len(oplists[0]) + [1] * len(oplists[1])
            log = fs.merged_logs(basef, oplists, order)
            fs.begin_timeline(basef, [log], [d0, d1, d2, d3])
        else:
            from ..realsched import RealSteps

            rs = RealSteps(K)
            rs.buffered = cbool(buf)
            rs.install(env, cp)
            rdir = crop_dir(env) + "/results"
            for g in range(2):
                gcrop = cp.Crop(name="t", parent_dir=env.parent)
                rs.start_writer((lambda cc: (lambda: cp.grow(1, crop=cc, verbosity=0)))(gcrop),
                                paths={rdir + "/xyz-result-1.jbdmp"})
            rs.global_order = [0] * i + [1] * j + [0] * 8 + [1] * 8
            rs.deltas = [int(d) for d in (d0, d1, d2, d3)]
        reader = cp.Crop(name="t", parent_dir=env.parent)
        try:
            out = reader.reap(wait=True, clean_up=False)
        finally:
            if rs is not None:
                rs.finish_all()
        return out == ref


def body_regrow(E, buf, base, d0, d1, d2, d3, d4, d5):
    """batch 1 is finished; a second worker grows it again while the reaper (wait=True) is reading:
    a published result stays valid throughout"""
    fn = mkfn(base)
    with E() as env:
        ref = combo_runner(fn, grid(2), verbosity=0)
        crop = cp.Crop(fn=fn, name="t", parent_dir=env.parent, batchsize=2)
        crop.sow_combos(grid(2), verbosity=0)
        cp.grow(1, crop=crop, verbosity=0)
        rs = None
        if env.mode == "sym":
            fs = env.fs
            fs.buffered = cbool(buf)
            basef = dict(fs.files)
            cp.os.pid = 4300
            fs.start_recording()
            cp.grow(1, crop=crop, verbosity=0)              # the re-grow, recorded from the finished state
            log = fs.stop_recording()
            cp.os.pid = 5000
            fs.files = dict(basef)
            fs.begin_timeline(basef, [log], [d0, d1, d2, d3, d4, d5])
        else:
            from ..realsched import RealSteps

            rs = RealSteps(2)
            rs.buffered = cbool(buf)
            rs.install(env, cp)
            gcrop = cp.Crop(name="t", parent_dir=env.parent)
            rs.start_writer(lambda: cp.grow(1, crop=gcrop, verbosity=0),
                            paths={crop_dir(env) + "/results/xyz-result-1.jbdmp"})
            rs.deltas = [int(d) for d in (d0, d1, d2, d3, d4, d5)]
        reader = cp.Crop(name="t", parent_dir=env.parent)
        try:
            out = reader.reap(wait=True, clean_up=False)
        finally:
            if rs is not None:
                rs.finish_all()
        return out == ref


def searching(body):
    """Real-mode replay: the real disk's step granularity can differ from StepFS's for a changed library, so
    if the solver's schedule itself does not fail there, a bounded family of schedules (first three
    observations advanced by 0..3 steps each) is tried; the replay fails if any of them fails."""

    def wrapped(E, **kw):
        if E is not REAL:
            return body(E, **kw)
        if not body(E, **kw):
            return False
        for a in range(4):
            for b in range(4):
                for c in range(3):
                    k2 = dict(kw)
                    k2.update(d0=a, d1=b, d2=c)
                    if not body(E, **k2):
                        return False
        # ... and schedules in which the writer runs ahead (by 1-4 steps) before one single later observation
        # (the reader of a changed library may make more observations than the stub counted)
        for pos in range(3, 10):
            for adv in range(1, 5):
                k2 = dict(kw)
                k2.update({"d%d" % q: 0 for q in range(10) if "d%d" % q in kw})
                if "d%d" % pos not in k2:
                    continue
                k2["d%d" % pos] = adv
                if not body(E, **k2):
                    return False
        return True

    return wrapped


BODIES = {}
_G = globals()
_D = " ".join("d%d:int" % i for i in range(10)) + " buf:bool"
_DR = " and ".join("0 <= d%d <= 4" % i for i in range(10))

CONDS = [
    make_cond(_G, "wait", searching(body_wait), "per:int base:int " + _D, ["1 <= per <= 2", _DR], fixed=dict(nb=1, K=2), timeout=600,
              bounds="1 grower / 1 batch (1-2 settings), result written in K=2 chunks; reap(wait=True) by a fresh "
                     "Crop; every placement of the reader's observations (exists-poll, isfile, isfile, open+load) "
                     "relative to the writer's steps"),
    make_cond(_G, "wait2", searching(body_wait), "base:int " + _D, [_DR], fixed=dict(nb=2, per=1, K=2), timeout=900,
              bounds="2 growers / 2 batches running concurrently with the waiting reaper, K=2"),
    make_cond(_G, "poll", searching(body_poll), "base:int " + _D, [_DR], fixed=dict(nb=1, K=2), timeout=600,
              bounds="1 grower; a poller calling num_results / is_ready_to_reap / missing_results three times at "
                     "solver-chosen instants: never counts a partly written result"),
    make_cond(_G, "poll2", searching(body_poll), "base:int " + _D, [_DR], fixed=dict(nb=2, K=2), timeout=900, tiers=("thorough",),
              bounds="2 growers and the poller"),
] + split_conds(_G, "same_batch", body_same_batch, "base:int i:int j:int d0:int d1:int d2:int d3:int",
              ["0 <= i <= 4 and 0 <= j <= 4 and 0 <= d0 <= 4 and 0 <= d1 <= 4 and 0 <= d2 <= 4 and 0 <= d3 <= 4"],
              "buf", [False, True], fixed=dict(K=2), timeout=900,
              bounds="the same batch grown by two workers at the same time: grower A performs i operations, B "
                     "performs j, A finishes, B finishes (all i, j in 0..4; POSIX open-file semantics: truncation in "
                     "place, writes follow a renamed file), observed by a reap(wait=True) at every placement: the "
                     "reaper returns exactly the direct-run result") + [
    make_cond(_G, "regrow", searching(body_regrow), "buf:bool base:int d0:int d1:int d2:int d3:int d4:int d5:int",
              [" and ".join("0 <= d%d <= 4" % i for i in range(6))], timeout=600,
              bounds="a finished batch grown again by a second worker while reap(wait=True) reads it: every "
                     "placement of the reader's observations relative to the second grower's steps"),
    make_cond(_G, "wait_ai", searching(body_wait_ai), "ai:bool pre:int base:int " + _D, [_DR, "1 <= pre <= 2"], fixed=dict(K=2), timeout=600,
              bounds="one of two batches finished (either one), the other being grown (K=2, writes immediate or buffered) while a fresh process "
                     "calls reap(wait=True, allow_incomplete=True|False): it waits and returns the full result"),
    make_cond(_G, "wait_k3", body_wait, "nb:int base:int " + _D, ["1 <= nb <= 2", _DR], fixed=dict(per=1, K=3),
              timeout=1800, tiers=("thorough",), bounds="as wait/wait2 with K=3 chunks"),
]

ASSUMPTIONS = [
    "StepFS: every file mutation is an atomic step (create/truncate, each of K chunk writes - issued during "
    "pickle.dump or, in buffered mode, when the handle is closed -, replace, remove); a "
    "file with fewer than K chunks cannot be unpickled (lemma checked on real pickles on every run); torn writes "
    "below chunk level, NFS close-to-open anomalies, more than one reaper are outside the claim",
    "interleavings are explored up to partial-order equivalence for writers of distinct files (per-file monotone "
    "positions); the same batch grown twice is explored by re-executing the two growers' recorded operations in a "
    "solver-chosen merge order under POSIX open-file semantics",
    "time.sleep replaced by a fair-scheduler clock: after a sleep the awaited writer has made progress",
    "counterexamples are replayed on the real disk with the growers as real threads gated step by step "
    "(vf/realsched.py) in the schedule the solver found",
]
