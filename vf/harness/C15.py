"""C15 - sampling only ever appends correct rows.

Real code executed: Sampler.__init__/gen_cases_fnargs/sample_combos/add_df/load_full_df/
save_full_df/full_df/Crop, Runner.run_cases(to_df=True), case_runner_to_ds, results_to_df,
manage.save_df/load_df, Crop.sow_samples/reap_samples (+ sow/grow/reap machinery).
pandas -> MiniPD, numpy RNG -> solver-chosen indices, file system -> FakeFS.
"""
from ..common import Cond, concretize, cbool, done, HarnessError, make_cond, split_conds
from ..env import Env
from ..stubs import minipd

import xyzpy.gen.farming as fm
import xyzpy.gen.cropping as cp
import xyzpy.manage as mg
from xyzpy.gen.farming import Runner, Sampler

FUNCS = [fm.Sampler, cp.Crop.sow_samples, cp.Crop.reap_samples, mg.save_df, mg.load_df]
CONFORMANCE = ("minipd", "fakefs", "random")

CH_A = [1, 2]
CH_B = [10, 20]


def SYM(**kw):
    kw.setdefault("fs", "obj")
    kw.setdefault("xr", True)
    kw.setdefault("pd", True)
    return Env("sym", **kw)


def REAL(**kw):
    for k in ("fs", "xr", "pd"):
        kw.pop(k, None)
    return Env("real", **kw)


def rows_of(env, df):
    if df is None:
        return []
    if env.mode == "sym":
        return [dict(r) for r in df.rows]
    return [{k: (v.item() if hasattr(v, "item") else v) for k, v in r.items()} for r in df.to_dict("records")]


def payload(base, a, b, c):
    return base + 1000 * a + 10 * b + c


def install_choice(env, idx):
    """np.random.choice(v) := v[next solver-chosen index]"""
    src = list(idx)

    def choice(v):
        v = list(v)
        k = src.pop(0)
        for i in range(len(v) - 1):
            if k == i:
                return v[i]
        return v[-1]

    if env.mode == "sym":
        env.np.choice_source = src
    else:
        import numpy

        env._set(numpy.random, "choice", choice)


def body_runs(E, eng, n1, n2, over2, kind2, bs, fresh, shuf, base, i0, i1, i2, i3, i4, i5, j1, nw=False, gz=False):
    engine = ["pickle", "csv"][concretize(eng, 0, 1)]
    n1 = concretize(n1, 1, 2)
    n2 = concretize(n2, 1, 2)
    kind2 = concretize(kind2, 0, 1)      # second run: 0 direct sample_combos, 1 sow_samples / grow / reap
    bs = concretize(bs, 1, 2)
    idx = [i0, i1, i2, i3, i4, i5]
    log = []

    def fn(a, b, c=0):
        log.append((a, b, c))
        return payload(base, a, b, c)

    with E(pools=[[0, j1]]) as env:
        install_choice(env, idx)
        # gz: a table name with a compression suffix (pandas infers the compression from the end of the name)
        name = env.parent + "/samples." + {"pickle": "pkl", "csv": "csv"}[engine] + (".gz" if cbool(gz) else "")

        def new_sampler():
            r = Runner(fn, var_names="out", constants={"c": 7})
            # keys deliberately NOT in the order of the function's signature (a, b)
            return Sampler(r, data_name=name, default_combos={"b": CH_B, "a": CH_A}, engine=engine)

        s = new_sampler()
        opts = {}
        if cbool(shuf) and n1 == 2:
            opts["shuffle"] = env.seed_for([0, j1], 2)
        df1 = s.sample_combos(n1, verbosity=0, **opts)
        table = rows_of(env, s.full_df)
        if len(table) != n1 or rows_of(env, df1) != table or rows_of(env, s.last_df) != table:
            return False
        if not rows_ok(table, log, {"a": CH_A, "b": CH_B}, base):
            return False
        if rows_of(env, mg.load_df(name, engine=engine)) != table:
            return False
        # ---- second run
        if cbool(fresh):
            s = new_sampler()
        combos2 = {"b": [30]} if cbool(over2) else None
        allowed = {"a": CH_A, "b": [30] if cbool(over2) else CH_B}
        del log[:]
        if kind2 == 0:
            s.sample_combos(n2, combos=combos2, verbosity=0)
        else:
            crop = s.Crop(name="smp", parent_dir=env.parent, batchsize=bs)
            crop.sow_samples(n2, combos=combos2, verbosity=0)
            gkw = {}
            if cbool(nw):
                # the batch is grown with worker processes, as the generated cluster scripts do: rows must still
                # pair each drawn setting with its own outputs whatever the completion order
                from ..stubs import basic

                if env.mode == "sym":
                    wpool = basic.EagerFutureExecutor()
                else:
                    from concurrent.futures import ThreadPoolExecutor
                    from .C04 import _slow_first

                    wpool = ThreadPoolExecutor(2)
                    gkw["fn"] = _slow_first(fn)
                env._set(cp, "get_reusable_executor", lambda *a, **k: wpool)
                gkw["num_workers"] = 2
            for bno in range(1, crop.num_batches + 1):
                cp.grow(bno, crop=crop, verbosity=0, **gkw)
            crop.reap()
        table2 = rows_of(env, s.full_df)
        if len(table2) != n1 + n2:
            return False
        if table2[:n1] != table:                         # earlier rows unchanged, in place
            return False
        new = table2[n1:]
        if not rows_ok(new, log if env.mode == "sym" or kind2 == 0 else None, allowed, base):
            return False
        if rows_of(env, s.last_df) != new:
            return False
        if rows_of(env, mg.load_df(name, engine=engine)) != table2:
            return False
        # a new sampler on the same file continues from it
        return rows_of(env, new_sampler().full_df) == table2


def rows_ok(rows, log, allowed, base):
    used = []
    for r in rows:
        if sorted(r) != ["a", "b", "c", "out"]:
            return False
        if r["a"] not in allowed["a"] or r["b"] not in allowed["b"] or r["c"] != 7:
            return False
        if r["out"] != payload(base, r["a"], r["b"], r["c"]):
            return False
        used.append((r["a"], r["b"], r["c"]))
    if log is not None and sorted(used) != sorted(log):
        return False                                     # exactly the drawn settings were evaluated
    return True


def body_two_live(E, o1, o2, o3, over1, base, i0, i1, i2, i3, i4, i5):
    """two Sampler objects alive on one file, used alternately; a per-run combos override must not
    leak into later runs of the same object"""
    log = []

    def fn(a, b, c=0):
        log.append((a, b, c))
        return payload(base, a, b, c)

    with E() as env:
        install_choice(env, [i0, i1, i2, i3, i4, i5])
        name = env.parent + "/samples.pkl"
        ss = [Sampler(Runner(fn, var_names="out", constants={"c": 7}), data_name=name,
                      default_combos={"a": CH_A, "b": CH_B}) for _ in range(2)]
        table = []
        used_over = [False, False]
        for step, o in enumerate((o1, o2, o3)):
            k = 1 if cbool(o) else 0
            s = ss[k]
            over = cbool(over1) and step == 0
            del log[:]
            s.sample_combos(1, combos={"b": [30]} if over else None, verbosity=0)
            if over:
                used_over[k] = True
            allowed = {"a": CH_A, "b": [30] if over else CH_B}
            now = rows_of(env, s.full_df)
            if len(now) != len(table) + 1 or now[:len(table)] != table:
                return False
            if not rows_ok(now[len(table):], log, allowed, base):
                return False
            if rows_of(env, mg.load_df(name)) != now:
                return False
            table = now
        return True


def body_crop_reuse(E, base, i0, i1, i2, i3):
    """the same Crop object used for two sow_samples / grow / reap cycles"""
    log = []

    def fn(a, b, c=0):
        log.append((a, b, c))
        return payload(base, a, b, c)

    with E() as env:
        install_choice(env, [i0, i1, i2, i3])
        name = env.parent + "/samples.pkl"
        s = Sampler(Runner(fn, var_names="out", constants={"c": 7}), data_name=name,
                    default_combos={"a": CH_A, "b": CH_B})
        crop = s.Crop(name="smp", parent_dir=env.parent, batchsize=1)
        table = []
        for cycle in range(2):
            del log[:]
            crop.sow_samples(1, verbosity=0)
            for bno in range(1, crop.num_batches + 1):
                cp.grow(bno, crop=crop, verbosity=0)
            crop.reap()
            now = rows_of(env, s.full_df)
            if len(now) != len(table) + 1 or now[:len(table)] != table:
                return False
            if not rows_ok(now[len(table):], log if env.mode == "sym" else None, {"a": CH_A, "b": CH_B}, base):
                return False
            if rows_of(env, mg.load_df(name)) != now:
                return False
            table = now
        return True


def body_generator(E, n, g0, g1, base):
    """combos values may be callables: their return values are the arguments"""
    n = concretize(n, 1, 2)
    vals = [g0, g1]
    with E() as env:
        install_choice(env, [0, 0, 0, 0])
        it = iter(vals)

        def fn(a, b):
            return payload(base, a, b, 0)

        s = Sampler(Runner(fn, var_names="out"), data_name=None, default_combos={"a": CH_A})
        s.sample_combos(n, combos={"b": lambda: next(it)}, verbosity=0)
        rows = rows_of(env, s.full_df)
        if len(rows) != n:
            return False
        for r, g in zip(rows, vals):
            if r["b"] != g or r["a"] != CH_A[0] or r["out"] != payload(base, r["a"], g, 0):
                return False
        return True


BODIES = {}
_G = globals()
_SIG = ("eng:int n1:int n2:int over2:bool kind2:int bs:int fresh:bool shuf:bool base:int "
        "i0:int i1:int i2:int i3:int i4:int i5:int j1:int")
_I = ("0 <= i0 <= 1 and 0 <= i1 <= 1 and 0 <= i2 <= 1 and 0 <= i3 <= 1 and 0 <= i4 <= 1 and 0 <= i5 <= 1 "
      "and 0 <= j1 <= 1")

CONDS = (
    [c for eng in (0, 1) for c in split_conds(
        _G, "runs_eng%d" % eng, body_runs, _SIG.replace("kind2:int ", "").replace("eng:int ", ""),
                ["1 <= n1 <= 2 and n2 == 1 and 1 <= bs <= 2", _I,
                 "i4 == 0 and i5 == 0 and (n1 == 2 or (i2 == 0 and i3 == 0))", "bs == 1"],
                "kind2", [0, 1], fixed=dict(eng=eng), timeout=600,
                bounds="two runs (n=1..2 then n=1): first sample_combos (optionally shuffled), second sample_combos "
                       "or sow_samples/grow/reap; combos override on/off; fresh Sampler on the same file or not; "
                       "engine %s; every drawn index; kind2 0 direct 1 crop" % ["pickle", "csv"][eng])]
    + [make_cond(_G, "runs_gz", body_runs, _SIG,
                 ["0 <= eng <= 1 and n1 == 1 and n2 == 1 and bs == 1 and 0 <= kind2 <= 1 and not shuf and not over2", _I,
                  "i1 == 0 and i2 == 0 and i3 == 0 and i4 == 0 and i5 == 0 and j1 == 0"],
                 fixed=dict(gz=True), timeout=300,
                 bounds="table named samples.pkl.gz / samples.csv.gz (compression inferred from the name by pandas): "
                        "two runs, fresh Sampler or not, direct or through a crop: disk = memory and a new sampler "
                        "continues")]
    + [make_cond(_G, "runs_n2", body_runs, _SIG + " nw:bool",
                 ["eng == 0 and n1 == 1 and n2 == 2 and 1 <= bs <= 2 and 0 <= kind2 <= 1 and not shuf", _I,
                  "i1 == 0 and i5 == 0 and j1 == 0", "not nw or (kind2 == 1 and bs == 2)"], timeout=600,
                 bounds="second run with n=2 (batchsize 1 or 2 when through a crop), every drawn index"),
       make_cond(_G, "two_live", body_two_live,
                 "o1:bool o2:bool o3:bool over1:bool base:int i0:int i1:int i2:int i3:int i4:int i5:int",
                 [_I.replace(" and 0 <= j1 <= 1", ""), "i2 == 0 and i3 == 0 and i4 == 0 and i5 == 0"], timeout=600,
                 bounds="three runs of n=1 issued through either of two simultaneously live Sampler objects on one "
                        "file (every assignment), the first run optionally with a combos override: every run appends "
                        "exactly one row to what is on disk, keeps all earlier rows, and draws from the choices in "
                        "force for that run"),
       make_cond(_G, "crop_reuse", body_crop_reuse, "base:int i0:int i1:int i2:int i3:int",
                 ["0 <= i0 <= 1 and 0 <= i1 <= 1 and 0 <= i2 <= 1 and 0 <= i3 <= 1"], timeout=300,
                 bounds="one Crop object used for two sow_samples(1) / grow / reap cycles, every drawn index: each "
                        "cycle's row pairs that cycle's drawn arguments with the function's value"),
       make_cond(_G, "generator", body_generator, "n:int g0:int g1:int base:int", ["1 <= n <= 2"], timeout=120,
                 bounds="a callable in combos supplies the argument values (symbolic), n<=2")]
)

ASSUMPTIONS = [
    "pandas replaced by MiniPD (rows as dicts; concat appends rows), numpy's RNG by solver-chosen indices, file "
    "system by FakeFS (to_pickle/to_csv store a copy under the path the real code computed); CSV text round trip and "
    "dtype changes are outside the claim",
    "histories of 2 runs with n<=2",
]
