"""Shared pieces for the crop (sow / grow / reap) harnesses."""
from ..common import HarnessError, concretize
from ..env import Env

import xyzpy.gen.cropping as cp
from xyzpy.gen.combo_runner import combo_runner
from xyzpy.gen.case_runner import case_runner

CROP_FUNCS = [
    cp.Crop, cp.Sower, cp.Reaper, cp.grow, cp.parse_crop_details, cp.parse_fn_farmer,
    cp.calc_clean_up_default_res, cp.check_ready_to_reap, cp.write_to_disk, cp.read_from_disk,
    cp.get_picklelib, cp.to_pickle, cp.from_pickle,
]

# grids of N settings, args already in sorted-name order: N -> combos
GRIDS = {
    1: (("a", [10]),),
    2: (("a", [10, 11]),),
    3: (("a", [10, 11, 12]),),
    4: (("a", [10, 11]), ("b", [20, 21])),
    5: (("a", [10, 11, 12, 13, 14]),),
    6: (("a", [10, 11]), ("b", [20, 21, 22])),
    7: (("a", [10, 11, 12, 13, 14, 15, 16]),),
    8: (("a", [10, 11]), ("b", [20, 21]), ("c", [30, 31])),
    9: (("a", [10, 11, 12]), ("b", [20, 21, 22])),
    10: (("a", [10, 11]), ("b", [20, 21, 22, 23, 24])),
}


def grid(n):
    return {k: list(v) for k, v in GRIDS[n]}


def case_list(n):
    """n distinct (a, b) cases whose coordinate union is a (<=3)x(<=4) grid with holes."""
    pts = [(10, 20), (11, 21), (12, 20), (10, 22), (11, 20), (12, 23), (10, 21), (12, 22),
           (11, 23), (10, 23)]
    return pts[:n]


def mkfn(base, args=("a", "b", "c")):
    """Pure payload function: distinct value per setting, symbolic offset."""

    def fn(a=0, b=0, c=0, k=0):
        return base + 10000 * a + 100 * b + c + 1000000 * k

    return fn


def n_batches_expected(n, mode, b):
    if mode == 0:      # neither
        return n
    if mode == 1:      # batchsize
        return -(-n // b)
    return min(n, b)   # num_batches


def batching_kwargs(mode, b):
    return {} if mode == 0 else ({"batchsize": b} if mode == 1 else {"num_batches": b})


def crop_dir(env, name="t"):
    return env.parent + "/.xyz-" + name


def SYM(**kw):
    kw.setdefault("fs", "obj")
    return Env("sym", **kw)


def REAL(**kw):
    kw.pop("fs", None)
    return Env("real", **kw)
