"""Adapters so that the same oracle code reads MiniXR objects (sym) and real xarray / pandas (real)."""
import itertools

from ..stubs import minixr as mx


def _py(x):
    try:
        return x.item()
    except AttributeError:
        return x


def _isnull(v):
    return v is None or (isinstance(v, float) and v != v)


def fingerprint(env, ds):
    """{'dims': {var: dims}, 'coords': {dim: labels}, 'cells': {(var, labels...): value (non-null only)},
    'attrs': {...}} of a Dataset"""
    out = {"dims": {}, "coords": {}, "cells": {}, "attrs": {}}
    if ds is None:
        return out
    if env.mode == "sym":
        for n, da in ds._vars.items():
            out["dims"][n] = tuple(da.dims)
            for k, v in da.cells.items():
                if not mx.isnull(v):
                    out["cells"][(n,) + tuple(k)] = v
        for d, labs in ds._coords.items():
            if d not in ds._nocoord:
                out["coords"][d] = list(labs)
        out["attrs"] = dict(ds.attrs)
        return out
    for n in ds.data_vars:
        da = ds[n]
        out["dims"][n] = tuple(da.dims)
        labs = [[_py(x) for x in da[d].values] if d in da.coords else list(range(da.sizes[d])) for d in da.dims]
        for idx in itertools.product(*(range(len(l)) for l in labs)):
            v = _py(da.values[idx]) if da.dims else _py(da.values)
            if not _isnull(v):
                out["cells"][(n,) + tuple(l[i] for l, i in zip(labs, idx))] = v
    for d in ds.dims:
        if d in ds.coords:
            out["coords"][d] = [_py(x) for x in ds[d].values]
    out["attrs"] = {k: (v.tolist() if hasattr(v, "tolist") else v) for k, v in ds.attrs.items()}
    return out


def canon(fp):
    """forget the ORDER of dimensions (a crop sows arguments sorted by name): cells keyed by label sets"""
    out = {"dims": {n: tuple(sorted(d)) for n, d in fp["dims"].items()}, "coords": fp["coords"],
           "attrs": fp["attrs"], "cells": {}}
    for key, v in fp["cells"].items():
        n, labs = key[0], key[1:]
        dims = fp["dims"][n]
        out["cells"][(n,) + tuple(sorted(zip(dims, labs)))] = v
    return out


def same_fp(a, b):
    if a["dims"] != b["dims"] or a["coords"] != b["coords"]:
        return False
    if sorted(a["cells"], key=repr) != sorted(b["cells"], key=repr):
        return False
    for k in a["cells"]:
        if a["cells"][k] != b["cells"][k]:
            return False
    if sorted(a["attrs"]) != sorted(b["attrs"]):
        return False
    return all(a["attrs"][k] == b["attrs"][k] for k in a["attrs"])


def rows_of(env, df):
    if df is None:
        return []
    if env.mode == "sym":
        return [dict(r) for r in df.rows]
    return [{k: _py(v) for k, v in r.items()} for r in df.to_dict("records")]
