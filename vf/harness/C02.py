"""C02 - sparse cases run only what was asked and leave every other slot missing.

Real code executed: combo_runner(cases=...), case_runner, parse_cases, combo_runner_core (case
enumeration, case_coords union, disjointness check), nan_like_result, infer_shape, _unflatten.
"""
from ..common import Cond, concretize, cbool, done, HarnessError, make_cond, split_conds
from ..env import Env
from ..stubs import basic

import xyzpy.gen.combo_runner as cr
from xyzpy.gen.combo_runner import combo_runner
from xyzpy.gen.case_runner import case_runner

FUNCS = [cr.combo_runner, cr.combo_runner_core, cr.nan_like_result, cr.infer_shape, cr._unflatten]
CONFORMANCE = ("random",)

POOL = [(2, 0), (0, 1), (1, 1), (2, 2), (0, 0), (1, 2)]      # (a, b) points, deliberately unsorted
# the same, with argument values of mixed numeric type / with tuple-valued argument values (both sortable)
POOL_MIXED = [(2.5, 0), (1, 1.5), (0.5, 1), (3, 2), (1, 0), (2.5, 2)]
POOL_TUPLE = [((2, 2), 0), ((1, 2), 1), ((3,), 1), ((2, 2), 2), ((1, 2), 0), ((3,), 2)]
POOLS = [POOL, POOL_MIXED, POOL_TUPLE]


def anum(a):
    if isinstance(a, tuple):
        return sum(a) + 7 * len(a)
    return int(2 * a) if isinstance(a, float) else 2 * a          # stays an int: payloads are solver ints
SUB = [50, 60]


def SYM(**kw):
    return Env("sym", **kw)


def REAL(**kw):
    kw.pop("xr", None)
    return Env("real", **kw)


def result_of(kind, v):
    if kind == 0:
        return v
    if kind == 1:
        return v % 2 == 0
    if kind == 2:
        return "s"
    if kind == 3:
        return (v, v + 1)
    if kind == 5:
        return {"e": v, "ok": v % 2 == 0, "tag": "t"}     # a dict of named outputs: number, bool, str
    return [v, v + 1]                     # nested list of shape (2,)


def is_nan(x):
    return isinstance(x, float) and x != x


def nan_array(x, shape):
    try:
        import numpy as np

        a = np.asarray(x, dtype=float)
        return a.shape == shape and bool(np.isnan(a).all())
    except Exception:  # noqa
        return False


def all_missing_dataset(x, names):
    """a Dataset (model or real) with exactly these variables, every one of them null"""
    if hasattr(x, "_vars"):                                   # MiniXR
        from ..stubs import minixr as mx

        if sorted(x._vars) != sorted(names):
            return False
        return all(bool(mx.isnull(c)) for da in x._vars.values() for c in da.cells.values())
    try:
        import xarray as xr

        if not isinstance(x, xr.Dataset) or sorted(x.data_vars) != sorted(names):
            return False
        return all(bool(x[n].isnull().all()) for n in names)
    except Exception:  # noqa
        return False


def placeholder_ok(kind, x):
    """all-missing stand-in, shaped like a real result"""
    if kind == 5:
        return all_missing_dataset(x, ["e", "ok", "tag"])
    if kind == 0:
        return is_nan(x)
    if kind in (1, 2):
        return x is None
    if kind == 3:
        return isinstance(x, tuple) and len(x) == 2 and nan_array(x[0], ()) and nan_array(x[1], ())
    # a list result [v, v + 1] is a sequence of two scalars: placeholder = two 0-d nan arrays
    return isinstance(x, tuple) and len(x) == 2 and nan_array(x[0], ()) and nan_array(x[1], ())


def pick_cases(k, s1, s2, s3, s4, which=0):
    """an ordered selection of k distinct pool points, chosen by solver-decided indices"""
    pool = list(POOLS[which])
    out = []
    for i, s in enumerate((s1, s2, s3, s4)[:k]):
        n = len(pool)
        for j in range(n):
            if s == j or j == n - 1:
                out.append(pool.pop(j))
                break
    return out


def body_cases(E, k, s1, s2, s3, s4, nsub, kind, dictsp, flat, via, base, shuf, j1, j2, j3, j4, j5, pool=0,
               asiter=False):
    k = concretize(k, 1, 4)
    nsub = concretize(nsub, 0, 2)
    kind = concretize(kind, 0, 5)
    flat = cbool(flat)
    via = concretize(via, 0, 1)           # 0 combo_runner(cases=), 1 case_runner (always flat)
    pts = pick_cases(k, s1, s2, s3, s4, concretize(pool, 0, 2))
    N = k * max(nsub, 1)
    js = [0, j1, j2, j3, j4, j5][:N] + [0] * 6
    log = []

    def fn(a, b, c=0):
        log.append((a, b, c))
        return result_of(kind, base + 100 * anum(a) + 10 * anum(b) + c)

    # dict spelling: every other case lists its keys in the opposite order
    cases = [({"a": a, "b": b} if i % 2 == 0 else {"b": b, "a": a}) for i, (a, b) in enumerate(pts)] \
        if cbool(dictsp) else None
    combos = {"c": SUB[:nsub]} if nsub else None
    with E(pools=[js[:N]], **({"xr": True} if kind == 5 else {})) as env:
        opts = {}
        if cbool(shuf):
            opts["shuffle"] = env.seed_for(js[:N], N)
        given = cases if cases is not None else (pts if via == 1 else [dict(a=a, b=b) for a, b in pts])
        if cbool(asiter):
            given = iter(list(given))          # a one-shot iterator ("iterable[dict] / iterable[tuple]")
        if via == 1:
            out = case_runner(fn, ("a", "b"), given, combos=combos, verbosity=0, **opts)
            flat = True
        else:
            out = combo_runner(fn, combos, cases=given, flat=flat, verbosity=0, **opts)
        subs = SUB[:nsub] if nsub else [0]
        want_calls = [(a, b, c) for a, b in pts for c in subs]
        # called exactly once for each requested setting and never for any other
        if sorted(log) != sorted(want_calls):
            return False

        def val(a, b, c):
            return result_of(kind, base + 100 * anum(a) + 10 * anum(b) + c)

        if flat:
            if len(out) != len(want_calls):
                return False
            return all(out[i] == val(*w) for i, w in enumerate(want_calls))
        ua = sorted(set(a for a, _ in pts))
        ub = sorted(set(b for _, b in pts))
        if not isinstance(out, tuple) or len(out) != len(ua):
            return False
        for ia, a in enumerate(ua):
            if len(out[ia]) != len(ub):
                return False
            for ib, b in enumerate(ub):
                cell = out[ia][ib]
                for ic, c in enumerate(subs):
                    got = cell[ic] if nsub else cell
                    if nsub and len(cell) != nsub:
                        return False
                    if (a, b) in pts:
                        if got != val(a, b, c):
                            return False
                    elif not placeholder_ok(kind, got):
                        return False
        return True


def body_strcases(E, k, via, nsub, base):
    """a single case argument given as bare (multi-character) strings, tuple spelling"""
    k = concretize(k, 1, 3)
    via = concretize(via, 0, 1)
    nsub = concretize(nsub, 0, 2)
    names = ["left", "up", "right"][:k]
    log = []

    def fn(mode, c=0):
        log.append((mode, c))
        return base + len(mode) + c

    with (E(xr=True) if via == 1 else E()):
        combos = {"c": SUB[:nsub]} if nsub else None
        if via == 0:
            out = case_runner(fn, "mode", tuple(names), combos=combos, verbosity=0)
        else:
            from xyzpy.gen.farming import Runner

            ds = Runner(fn, "x", fn_args="mode").run_cases(
                tuple(names), combos=tuple(combos.items()) if combos else (), verbosity=0)
            out = None
        subs = SUB[:nsub] if nsub else [0]
        want = [(m, c) for m in names for c in subs]
        if sorted(log) != sorted(want):
            return False
        if out is not None:
            return list(out) == [base + len(m) + c for m, c in want]
        return sorted(str(v) for v in ds["mode"].values) == sorted(names)


def body_overlap(E, k, which):
    """an argument may not appear in both the cases and the grid: rejected before anything runs"""
    k = concretize(k, 1, 2)
    which = concretize(which, 0, 1)
    log = []

    def fn(a, b):
        log.append((a, b))
        return 0

    with E():
        try:
            combo_runner(fn, {["a", "b"][which]: [1, 2]}, cases=[{"a": 0, "b": 0}, {"a": 1, "b": 1}][:k], verbosity=0)
        except ValueError:
            return not log
        return False


BODIES = {}
_G = globals()
_SIG = ("k:int s1:int s2:int s3:int s4:int nsub:int kind:int dictsp:bool flat:bool via:int base:int shuf:bool "
        "j1:int j2:int j3:int j4:int j5:int")
_S = "0 <= s1 <= 5 and 0 <= s2 <= 4 and 0 <= s3 <= 3 and 0 <= s4 <= 2"
_NOJ = "j1 == 0 and j2 == 0 and j3 == 0 and j4 == 0 and j5 == 0"

CONDS = (
    split_conds(_G, "cases", body_cases, _SIG.replace("kind:int ", ""),
                ["1 <= k <= 3 and nsub == 0 and 0 <= via <= 1 and not shuf and s4 == 0", _S, _NOJ,
                 "k >= 2 or s2 == 0", "k >= 3 or s3 == 0", "via == 0 or not flat"],
                "kind", [0, 1, 2, 3, 4, 5], timeout=400,
                bounds="every ordered selection of 1-3 distinct cases out of a 6-point (a, b) pool (unsorted values), "
                       "dict or tuple spelling, nested or flat, combo_runner(cases=) or case_runner; result kind "
                       "0 number 1 bool 2 str 3 2-tuple 4 list of 2 5 dict of named outputs (number, bool, str; placeholder = a "
                       "Dataset with every variable null)")
    + [make_cond(_G, "subgrid", body_cases, _SIG,
                 ["1 <= k <= 2 and 1 <= nsub <= 2 and via == 0 and not shuf and s3 == 0 and s4 == 0 and 0 <= kind <= 4",
                  _S, _NOJ, "k >= 2 or s2 == 0"], timeout=400,
                 bounds="1-2 cases crossed with a sub-grid of 1-2 values of a third argument, all result kinds"),
       make_cond(_G, "iter_cases", body_cases, _SIG,
                 ["1 <= k <= 3 and 0 <= nsub <= 2 and 0 <= via <= 1 and not shuf and s4 == 0 and kind == 0",
                  _S, _NOJ, "k >= 2 or s2 == 0", "k >= 3 or s3 == 0", "via == 0 or not flat", "s1 <= 1 and s2 <= 1 and s3 <= 1"],
                 fixed=dict(asiter=True), timeout=400,
                 bounds="cases given as a one-shot iterator (of dicts or tuples), 1-3 cases, optional sub-grid, "
                        "combo_runner(cases=) and case_runner, nested and flat: every case is run, flat output "
                        "is case-major"),
    ] + split_conds(_G, "valtypes", body_cases, _SIG,
                 ["1 <= k <= 3 and nsub == 0 and 0 <= via <= 1 and not shuf and s4 == 0 and kind == 0",
                  _S, _NOJ, "k >= 2 or s2 == 0", "k >= 3 or s3 == 0", "via == 0 or not flat"], "pool", [1, 2], timeout=400,
                 bounds="as `cases` with argument values of mixed int / float type (pool 1) and tuple-valued "
                        "argument values (pool 2): the grid spans the sorted union of the values as given") + [
       make_cond(_G, "shuffled", body_cases, _SIG,
                 ["2 <= k <= 4 and nsub == 0 and via == 0 and shuf and kind == 0 and s1 == 0 and s2 == 0 and s3 == 0 "
                  "and s4 == 0 and dictsp", "0 <= j1 <= 1 and 0 <= j2 <= 2 and 0 <= j3 <= 3 and j4 == 0 and j5 == 0"],
                 timeout=300, bounds="2-4 cases under every shuffle permutation, nested and flat"),
       make_cond(_G, "strcases", body_strcases, "k:int via:int nsub:int base:int",
                 ["1 <= k <= 3 and 0 <= via <= 1 and 0 <= nsub <= 2"], timeout=200,
                 bounds="1-3 cases of a single argument given as bare strings ('left', 'up', 'right'), optional "
                        "sub-grid, through case_runner and Runner.run_cases: called exactly for the requested strings"),
       make_cond(_G, "overlap", body_overlap, "k:int which:int", ["1 <= k <= 2 and 0 <= which <= 1"], timeout=60,
                 bounds="a case argument that also appears in combos: ValueError with an empty call log"),
       make_cond(_G, "cases4", body_cases, _SIG,
                 ["k == 4 and nsub == 0 and via == 0 and not shuf and kind == 0 and not flat", _S, _NOJ], timeout=900,
                 tiers=("thorough",), bounds="every ordered selection of 4 cases out of the pool")]
)

ASSUMPTIONS = [
    "tqdm replaced by a no-op; `random` by NDRandom",
    "case coordinates are concrete values from 6-point pools (they are hashed into sets/dict keys); Dataset / "
    "DataArray-valued results and unsortable mixed-type coordinates are outside the claim",
]
