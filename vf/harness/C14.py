"""C14 (PARTIAL) - saving and loading a dataset: the parts xyzpy itself owns.

Decided here: (i) one file name is used consistently for saving, loading, merging and the three
Harvester file operations, for every name (symbolic str) and engine; (ii) the extension rule;
(iii) attribute rewriting happens for exactly None/True/False (identity) and exactly for netCDF
engines; (iv) complex data => invalid_netcdf=True unless the caller decided; (v) chunks /
load_to_mem handling.  NOT decided (cannot be encoded): that h5netcdf / joblib write and read back
the same dims, coords, values, NaNs and complex numbers - C libraries behind a file.

Real code executed: manage.auto_add_extension/save_ds/load_ds/save_merge_ds,
Harvester.load_full_ds/save_full_ds/delete_ds.  The backend calls are recording stubs.
"""
from ..common import Cond, concretize, cbool, done, HarnessError, make_cond, split_conds
from ..env import Env

import xyzpy.manage as mg
import xyzpy.gen.farming as fm
from xyzpy.gen.farming import Harvester

FUNCS = [mg.auto_add_extension, mg.save_ds, mg.load_ds, mg.save_merge_ds, fm.Harvester.load_full_ds,
         fm.Harvester.save_full_ds, fm.Harvester.delete_ds]
LEVEL = "other"
NO_REAL = ()
EXTS = {"h5netcdf": ".h5", "netcdf4": ".nc", "joblib": ".dmp", "zarr": ".zarr"}


class Rec:
    """recording stand-ins for os / xr / joblib / np inside manage and farming"""

    def __init__(self, exists):
        self.exists = exists
        self.paths = []      # (operation, path)
        self.replaced = []   # (temporary name, final name) of every os.replace
        self.kw = []

    # --- os
    W_OK = 2

    @property
    def path(self):
        return self

    def _p(self, op, p):
        self.paths.append((op, p))

    def isfile(self, p):
        self._p("isfile", p)
        return self.exists

    def access(self, p, mode):
        self._p("access", p)
        return self.exists

    def remove(self, p):
        self._p("remove", p)

    # os.path.exists clashes with the flag: served through __getattr__ below


class RecOS:
    W_OK = 2

    def __init__(self, rec):
        self.rec = rec
        self.path = RecPath(rec)

    def access(self, p, mode):
        self.rec.paths.append(("access", p))
        return self.rec.exists

    def remove(self, p):
        self.rec.paths.append(("remove", p))

    def replace(self, a, b):
        self.rec.replaced.append((a, b))
        self.rec.paths.append(("write", b))        # what ends up under the final name


class RecPath:
    import posixpath as _pp

    join = staticmethod(_pp.join)
    dirname = staticmethod(_pp.dirname)
    basename = staticmethod(_pp.basename)

    def __init__(self, rec):
        self.rec = rec

    def exists(self, p):
        self.rec.paths.append(("exists", p))
        return self.rec.exists

    def isfile(self, p):
        self.rec.paths.append(("isfile", p))
        return self.rec.exists


class FakeVar:
    def __init__(self, values):
        self.values = values


class FakeDS:
    """the few attributes save_ds / load_ds / save_merge_ds touch"""

    def __init__(self, rec, attrs=None, complex_=False):
        self.rec = rec
        self.attrs = dict(attrs or {})
        self.variables = {"x": FakeVar(1j if complex_ else 1.0)}
        self.loaded = False
        self.closed = False

    def to_netcdf(self, file_name, engine=None, **kw):
        self.rec.paths.append(("write", file_name))
        self.rec.kw.append(dict(kw, engine=engine))

    def load(self):
        self.loaded = True

    def close(self):
        self.closed = True

    def combine_first(self, other):
        return self

    def copy(self, deep=True):
        return self


class RecXR:
    def __init__(self, rec):
        self.rec = rec

    def Dataset(self, *a, **k):
        return FakeDS(self.rec)

    def merge(self, objs, **k):
        return objs[-1]

    def open_dataset(self, file_name, **kw):
        self.rec.paths.append(("read", file_name))
        self.rec.kw.append(dict(kw))
        ds = FakeDS(self.rec)
        self.rec.opened = ds
        return ds

    DataArray = type("DataArray", (), {})


class RecJoblib:
    def __init__(self, rec):
        self.rec = rec

    def dump(self, obj, file_name, **kw):
        self.rec.paths.append(("write", file_name))

    def load(self, file_name, **kw):
        self.rec.paths.append(("read", file_name))
        return FakeDS(self.rec)


class RecNP:
    @staticmethod
    def iscomplexobj(v):
        return isinstance(v, complex)


def patched(env, rec):
    for m in (mg, fm):
        env._set(m, "os", RecOS(rec))
        env._set(m, "xr", RecXR(rec))
        env._set(m, "np", RecNP)
    env._set(mg, "joblib", RecJoblib(rec))


def SYM(**kw):
    return Env("sym", **kw)


def REAL(**kw):
    # the backends stay recording stubs in replay too: the sub-claims are about what xyzpy passes to them
    return Env("sym", **kw)


def expected_name(name, engine):
    """(ii): no known extension anywhere in the name => the engine's is appended; a name ending in a
    known extension is unchanged; names merely *containing* one elsewhere are left unconstrained"""
    if not any(e in name for e in EXTS.values()):
        return name + EXTS[engine]
    for e in EXTS.values():
        if name.endswith(e):
            return name
    return None


def body_names(E, name, eng, exists):
    engine = ["h5netcdf", "joblib"][concretize(eng, 0, 1)]
    exists = cbool(exists)
    with E() as env:
        rec = Rec(exists)
        patched(env, rec)
        ds = FakeDS(rec)
        mg.save_ds(ds, name, engine=engine)
        W = [p for op, p in rec.paths if op == "write"]
        if len(W) != 1:
            return False
        W = W[0]
        want = expected_name(name, engine)
        if want is not None and W != want:
            return False
        del rec.paths[:]
        mg.load_ds(name, engine=engine)
        mg.load_ds(name, engine=engine, create_new=True)
        mg.save_merge_ds(ds, name, engine=engine)
        h = Harvester(None, data_name=name, engine=engine)
        h.load_full_ds()
        h.save_full_ds(FakeDS(rec))
        h.delete_ds()
        if not rec.paths:
            return False
        temps = [a for a, _ in rec.replaced]
        for op, p in rec.paths:
            if op == "write" and any(p == t for t in temps):
                continue                 # written under a temporary name, then moved onto the final name
            if p != W:
                return False
        for a, b in rec.replaced:
            if b != W or a == W:
                return False
        # the operations really happened
        ops = [op for op, _ in rec.paths]
        if "write" not in ops or "remove" not in ops or ("read" not in ops and exists):
            return False
        return True


ATTR_VALUES = [None, True, False, 0, 1, "None", "x"]


def body_attrs(E, eng, a0, a1, sv):
    engine = ["h5netcdf", "netcdf4", "joblib"][concretize(eng, 0, 2)]
    a0 = concretize(a0, 0, 7)
    a1 = concretize(a1, 0, 7)
    vals = ATTR_VALUES + [sv]
    with E() as env:
        rec = Rec(False)
        patched(env, rec)
        ds = FakeDS(rec, attrs={"p": vals[a0], "q": vals[a1]})
        mg.save_ds(ds, "n.h5", engine=engine)
        for key, idx in (("p", a0), ("q", a1)):
            v, got = vals[idx], ds.attrs[key]
            if engine != "joblib" and (v is None or v is True or v is False):
                if got != {None: "None", True: "True", False: "False"}[v] or not isinstance(got, str):
                    return False
            else:
                if got is not v and not (got == v and type(got) is type(v)):
                    return False
        return sorted(ds.attrs) == ["p", "q"]


def body_complex(E, eng, cx, user):
    engine = ["h5netcdf", "netcdf4", "joblib"][concretize(eng, 0, 2)]
    user = concretize(user, 0, 2)        # caller passes invalid_netcdf: 0 nothing, 1 True, 2 False
    with E() as env:
        rec = Rec(False)
        patched(env, rec)
        ds = FakeDS(rec, complex_=cbool(cx))
        kw = {} if user == 0 else {"invalid_netcdf": user == 1}
        mg.save_ds(ds, "n", engine=engine, **kw)
        if engine == "joblib":
            return rec.kw == []
        (k,) = rec.kw
        if k["engine"] != engine:
            return False
        if user:
            return k.get("invalid_netcdf") == (user == 1)
        return k.get("invalid_netcdf", False) == cbool(cx)


def body_chunks(E, ch, ltm):
    ch = concretize(ch, 0, 2)            # chunks None / int / dict
    ltm = concretize(ltm, 0, 2)          # load_to_mem None / True / False
    chunks = [None, 3, {"a": 2}][ch]
    load_to_mem = [None, True, False][ltm]
    with E() as env:
        rec = Rec(True)
        patched(env, rec)
        try:
            ds = mg.load_ds("n.h5", chunks=chunks, load_to_mem=load_to_mem)
        except ValueError:
            return chunks is not None and load_to_mem is True
        if chunks is not None and load_to_mem is True:
            return False
        (k,) = rec.kw
        if k.get("chunks") != chunks or k.get("engine") != "h5netcdf":
            return False
        want_loaded = (load_to_mem is None and chunks is None)
        # load_to_mem=True without chunks: the documented reading is "load"; the code's decision table
        # is asserted as is only where the docstring settles it (defaults and chunks given)
        if chunks is not None:
            return not ds.loaded
        if load_to_mem is None:
            return ds.loaded and ds.closed
        return True


def body_roundtrip_model(E, eng, v1, v2, v3, v4, a_none, chunks):
    """save_ds -> load_ds over the conformance-checked dataset model (sym) / the real h5netcdf+joblib (replay):
    what xyzpy's own code does to the dataset on the way (dimension order per variable, attribute rewriting,
    the caller's object) - not the byte-level format"""
    from .xrkit import fingerprint, same_fp
    from ..stubs import minixr as mx

    engine = ["h5netcdf", "joblib"][concretize(eng, 0, 1)]
    real = E is REAL
    env = Env("real") if real else Env("sym", fs="obj", xr=True)
    with env:
        def make():
            coords = {"a": [1, 2], "b": [10, 20, 30]}
            x = [[v1, v2, v3], [v4, v1, v2]]
            y = [[v1, v4], [v2, v1], [v3, v2]]          # stored as (b, a): transposed relative to ds.dims
            attrs = {"note": "n", "flag": None if cbool(a_none) else 3}
            if real:
                import numpy as np
                import xarray as xr

                return xr.Dataset(coords=coords, attrs=attrs, data_vars={
                    "x": (("a", "b"), np.array(x, dtype=float)), "y": (("b", "a"), np.array(y, dtype=float))})
            return mx.Dataset(coords=coords, attrs=attrs, data_vars={"x": (("a", "b"), x), "y": (("b", "a"), y)})

        ds, expect = make(), make()
        path = env.parent + "/rt"
        mg.save_ds(ds, path, engine=engine)
        kw = {"chunks": 1} if (cbool(chunks) and engine != "joblib") else {}
        back = mg.load_ds(path, engine=engine, **kw)
        fe, fb = fingerprint(env, expect), fingerprint(env, back)
        if engine != "joblib" and cbool(a_none):
            fe["attrs"]["flag"] = "None"                 # the documented rewriting
        ok = same_fp(fe, fb)
        # what was loaded is the caller's own copy: saving other (same-shaped) data under the name afterwards
        # does not change it
        if ok and not kw:
            if real:
                back.close()
            other = make() + 1 if real else make()._map(lambda c: c + 1)
            mg.save_ds(other, path, engine=engine)
            ok = same_fp(fe, fingerprint(env, back))
        if real:
            back.close()
        # the caller's dataset keeps its variables' dimension order
        return ok and fingerprint(env, ds)["dims"] == fingerprint(env, expect)["dims"]


BODIES = {}
_G = globals()

CONDS = (
    split_conds(_G, "names", body_names, "name:str exists:bool", ["len(name) <= 5"], "eng", [0, 1], timeout=600,
                bounds="file name = any str of length <= 5 (thorough: 7), engine h5netcdf|joblib, file present or "
                       "not: save_ds writer path == load_ds reader path == save_merge_ds probe/read/write paths == "
                       "Harvester load/save/delete paths, and the extension rule")
    + split_conds(_G, "names_long", body_names, "name:str exists:bool", ["6 <= len(name) <= 7"], "eng", [0, 1],
                  timeout=1800, tiers=("thorough",), bounds="as names with len(name) in 6..7")
    + [
        make_cond(_G, "attrs", body_attrs, "eng:int a0:int a1:int sv:int", ["0 <= eng <= 2 and 0 <= a0 <= 7 and 0 <= a1 <= 7"],
                  timeout=300,
                  bounds="two attributes with values in {None, True, False, 0, 1, 'None', 'x', symbolic int} x engines "
                         "h5netcdf/netcdf4/joblib: rewritten to strings for exactly None/True/False (identity) and "
                         "exactly the netCDF engines"),
        make_cond(_G, "complex", body_complex, "eng:int cx:bool user:int", ["0 <= eng <= 2 and 0 <= user <= 2"],
                  timeout=120, bounds="complex data => invalid_netcdf=True unless the caller passed it; engine "
                                      "dispatch (joblib never calls to_netcdf)"),
        make_cond(_G, "roundtrip_model", body_roundtrip_model,
                  "eng:int v1:int v2:int v3:int v4:int a_none:bool chunks:bool", ["0 <= eng <= 1"], timeout=200,
                  bounds="a 2x3 dataset with x(a,b) and y(b,a) (symbolic values), attributes incl. None, engines "
                         "h5netcdf|joblib, chunks on/off: save_ds then load_ds gives back the same dims per variable, "
                         "coords, values and attrs (up to the documented rewriting) and leaves the caller's dataset's "
                         "layout alone; model level in the check, real files in the replay"),
        make_cond(_G, "chunks", body_chunks, "ch:int ltm:int", ["0 <= ch <= 2 and 0 <= ltm <= 2"], timeout=120,
                  bounds="chunks None/int/dict x load_to_mem None/True/False: chunks given => nothing forced into "
                         "memory and chunks forwarded; both given => ValueError; defaults => loaded and closed"),
    ]
)

ASSUMPTIONS = [
    "PARTIAL CLAIM: the byte-level round trip through h5netcdf / joblib (dims, coords, values, NaNs, complex "
    "numbers read back equal) is NOT decided - those are C libraries behind a file",
    "os / xarray / joblib / numpy inside manage and farming are recording stubs; the sub-claims are about the "
    "arguments xyzpy passes to them",
    "names that contain a known extension elsewhere than at the end are left unconstrained by the extension rule",
    "zarr / netcdf4 engines only in the attribute and dispatch sub-claims",
]
