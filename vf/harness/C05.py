"""C05 - the harvested dataset is the faithful merge of everything ever harvested.

Real code executed: Harvester.__init__/load_full_ds/full_ds/save_full_ds/add_ds/expand_dims/
drop_sel/harvest_combos/harvest_cases, Runner.run_combos/run_cases, combo_runner_to_ds,
results_to_ds, manage.auto_add_extension/save_ds/load_ds/save_merge_ds.
xarray, numpy and joblib are replaced by MiniXR/MiniNP/MiniJoblib (conformance-checked).
"""
from ..common import Cond, concretize, cbool, done, HarnessError, make_cond, split_conds
from ..env import Env
from ..stubs import minixr as mx

import xyzpy.gen.farming as fm
import xyzpy.manage as mg
from xyzpy.gen.farming import Harvester, Runner

CONFORMANCE = ("minixr", "fakefs")
FUNCS = [fm.Harvester, mg.auto_add_extension, mg.save_ds, mg.load_ds, mg.save_merge_ds]
LABELS = (1, 2, 3)
POL = (None, True, False)


def SYM(**kw):
    kw.setdefault("fs", "obj")
    kw.setdefault("xr", True)
    return Env("sym", **kw)


def REAL(**kw):
    kw.pop("fs", None)
    kw.pop("xr", None)
    return Env("real", **kw)


# ---------------------------------------------------------------- dataset adapters (both modes)
def mk_ds(env, cells):
    """dataset over dim 'a' with variable 'x' from {label: value | NAN}"""
    labs = [l for l in LABELS if l in cells]
    if env.mode == "sym":
        return mx.Dataset(coords={"a": labs}, data_vars={"x": (("a",), [cells[l] for l in labs])})
    import numpy as np
    import xarray as xr

    return xr.Dataset(coords={"a": labs}, data_vars={"x": (("a",), np.array([float(cells[l]) for l in labs]))})


def cells_of(env, ds, var="x"):
    """{label tuple: value} of the non-null cells of a dataset (missing and NaN are the same thing)"""
    if ds is None:
        return {}
    out = {}
    if env.mode == "sym":
        if var not in ds._vars:
            return {}
        for k, v in ds._vars[var].cells.items():
            if not mx.isnull(v):
                out[k] = v
        return out
    import math

    if var not in ds.data_vars:
        return {}
    da = ds[var]
    import itertools

    labs = [list(da[d].values) for d in da.dims]
    for idx in itertools.product(*(range(len(l)) for l in labs)):
        v = float(da.values[idx])
        if not math.isnan(v):
            out[tuple(_py(l[i]) for l, i in zip(labs, idx))] = v
    return out


def _py(x):
    try:
        return x.item()
    except AttributeError:
        return x


def same_cells(a, b):
    if sorted(a) != sorted(b):
        return False
    return all(a[k] == b[k] for k in a)


def disk_cells(env, name, engine, var="x"):
    fname = mg.auto_add_extension(env.parent + "/" + name, engine)
    if not env.exists(fname):
        return None
    ds = mg.load_ds(fname, engine=engine)
    out = cells_of(env, ds, var)
    if env.mode == "real":
        ds.close()
    return out


def policy(old, new, pol):
    """cell-level oracle: (merged, conflict?) with keys = label tuples, NaN/absent cells omitted"""
    out = dict(old)
    for k, v in new.items():
        if k not in out:
            out[k] = v
        elif pol is True:
            out[k] = v
        elif pol is False:
            pass
        elif out[k] != v:
            return None
    return out


def decode_cells(cs, vs):
    """cs[i] in {0 absent, 1 NaN, 2 value}; returns (dataset cells incl. NaN, non-null cells keyed by tuple)"""
    full, nonnull = {}, {}
    for l, c, v in zip(LABELS, cs, vs):
        if c == 1:
            full[l] = mx.NAN
        elif c == 2:
            full[l] = v
            nonnull[(l,)] = v
    return full, nonnull


def merge_error(env):
    if env.mode == "sym":
        return mx.MergeError
    import xarray as xr

    return xr.MergeError


# ---------------------------------------------------------------- histories
def body_hist(E, ext, eng, pre_on, b1, b2, b3, w1, w2, w3,
              op, pol, sync, fresh, c1, c2, c3, v1, v2, v3,
              op2, pol2, fresh2, d1, d2, d3, u1, u2, u3, steps=2):
    """pre-state (optional, built directly on disk) + `steps` operations, checks after each"""
    engine = ["h5netcdf", "joblib"][concretize(eng, 0, 1)]
    name = ("data" + {"h5netcdf": ".h5", "joblib": ".dmp"}[engine]) if cbool(ext) else "data"
    ghost = {}
    with E() as env:
        path = env.parent + "/" + name

        def fn(a):
            return {1: v1, 2: v2, 3: v3}[a] if stepno[0] == 0 else {1: u1, 2: u2, 3: u3}[a]

        stepno = [0]
        runner = Runner(fn, var_names="x")
        if cbool(pre_on):
            full, ghost = decode_cells([concretize(b, 0, 2) for b in (b1, b2, b3)], (w1, w2, w3))
            if full:
                mg.save_ds(mk_ds(env, full), path, engine=engine)
        h = Harvester(runner, data_name=path, engine=engine)
        plan = [(op, pol, sync, fresh, (c1, c2, c3), (v1, v2, v3)),
                (op2, pol2, True, fresh2, (d1, d2, d3), (u1, u2, u3))][:steps]
        for i, (o, p, sy, fr, cs, vs) in enumerate(plan):
            stepno[0] = i
            o = concretize(o, 0, 3)
            pl = POL[concretize(p, 0, 2)]
            sy = cbool(sy)
            if cbool(fr):
                h = Harvester(Runner(fn, var_names="x"), data_name=path, engine=engine)
            cs = [concretize(c, 0, 2) for c in cs]
            if o in (1, 2):
                cs = [2 if c else 0 for c in cs]       # a run produces values, never NaN
            full, new = decode_cells(cs, vs)
            if not full:
                continue
            before_disk = disk_cells(env, name, engine)
            if not sy:
                h.full_ds      # an unsynced step merges into what is in memory: make that the ghost
            want = policy(ghost, new, pl)
            raised = False
            try:
                if o == 0:
                    h.add_ds(mk_ds(env, full), overwrite=pl, sync=sy)
                elif o == 1:
                    h.harvest_combos({"a": [l for l in LABELS if l in full]}, overwrite=pl, sync=sy, verbosity=0)
                elif o == 2:
                    h.harvest_cases([{"a": l} for l in LABELS if l in full], overwrite=pl, sync=sy, verbosity=0)
                else:
                    if h._full_ds is not None and env.mode == "real":
                        h._full_ds.close()
                    mg.save_merge_ds(mk_ds(env, full), path, overwrite=pl, engine=engine)
                    h = Harvester(Runner(fn, var_names="x"), data_name=path, engine=engine)
            except merge_error(env):
                raised = True
            if want is None:
                # conflicting data under the default policy: error, memory and disk unchanged
                if not raised:
                    return False
                if not same_cells(disk_cells(env, name, engine) or {}, ghost):
                    return False
                if not same_cells(cells_of(env, h.full_ds), ghost):
                    return False
                continue
            if raised:
                return False
            ghost = want
            if not sy:
                # memory only; disk untouched
                if not same_cells(cells_of(env, h._full_ds), ghost):
                    return False
                now = disk_cells(env, name, engine)
                if (now is None) != (before_disk is None) or (now is not None and not same_cells(now, before_disk)):
                    return False
                return True        # unsynced steps end the history (see ASSUMPTIONS)
            dsk = disk_cells(env, name, engine)
            if dsk is None or not same_cells(dsk, ghost):
                return False
            if not same_cells(cells_of(env, h.full_ds), ghost):
                return False
        # a new session sees everything
        h2 = Harvester(Runner(fn, var_names="x"), data_name=path, engine=engine)
        if ghost and not same_cells(cells_of(env, h2.full_ds), ghost):
            return False
        return True


def body_alias(E, v1, v2, w1, disk):
    """the harvested dataset is a copy: editing the source object in place afterwards must not change it"""
    with E() as env:
        path = (env.parent + "/data.h5") if cbool(disk) else None
        h = Harvester(Runner(lambda a: 0, var_names="x"), data_name=path)
        src = mk_ds(env, {1: v1, 2: v2})
        h.add_ds(src)
        # in-place edit of the source's data buffer
        if env.mode == "sym":
            src["x"].set_cell((1,), w1)
        else:
            src["x"].values[0] = float(w1)
        return same_cells(cells_of(env, h.full_ds), {(1,): v1, (2,): v2})


def body_reshape(E, ext, v1, v2, v3, fresh):
    """add, expand_dims, add along the new dimension, drop_sel, new session"""
    name = "data.h5" if cbool(ext) else "data"
    with E() as env:
        path = env.parent + "/" + name
        h = Harvester(Runner(lambda a: 0, var_names="x"), data_name=path)
        h.add_ds(mk_ds(env, {1: v1, 2: v2}))
        h.expand_dims("c", 7)
        if cbool(fresh):
            h = Harvester(Runner(lambda a: 0, var_names="x"), data_name=path)
        got = cells_of(env, h.full_ds)
        if not same_cells(got, {(7, 1): v1, (7, 2): v2}):
            return False
        if tuple(h.full_ds["x"].dims) != ("c", "a"):
            return False
        h.drop_sel(a=1)
        h2 = Harvester(Runner(lambda a: 0, var_names="x"), data_name=path)
        for hh in (h, h2):
            if not same_cells(cells_of(env, hh.full_ds), {(7, 2): v2}):
                return False
        dsk = disk_cells(env, name, "h5netcdf")
        return dsk is not None and same_cells(dsk, {(7, 2): v2})


def body_two_live(E, o1, o2, o3, pol3, v1, v2, v3):
    """two Harvester objects alive at the same time on one data name, used alternately: each synced
    harvest must start from what is on disk, not from the object's own (possibly stale) memory"""
    pl = POL[concretize(pol3, 0, 2)]
    with E() as env:
        path = env.parent + "/data.h5"
        hs = [Harvester(Runner(lambda a: 0, var_names="x"), data_name=path) for _ in range(2)]
        ghost = {}
        plan = [(o1, 1, v1, None), (o2, 2, v2, None), (o3, 1, v3, pl)]
        for o, lab, v, p in plan:
            h = hs[1 if cbool(o) else 0]
            new = {(lab,): v}
            want = policy(ghost, new, p)
            try:
                h.add_ds(mk_ds(env, {lab: v}), overwrite=p)
                raised = False
            except merge_error(env):
                raised = True
            if want is None:
                if not raised:
                    return False
            else:
                if raised:
                    return False
                ghost = want
            if not same_cells(disk_cells(env, "data.h5", "h5netcdf") or {}, ghost):
                return False
            if not raised and not same_cells(cells_of(env, h.full_ds), ghost):
                return False
        return True


def body_two_live_drop(E, o1, o2, o3, o4, dl, v1, v2, v3):
    """two live Harvester objects on one data name: labels 1 and 2 are added (through either object), one of them
    is removed again with drop_sel (through either object), then label 3 is added (through either object): the
    dropped label stays dropped - a synced step starts from what is on disk, not from the acting object's memory"""
    dl = concretize(dl, 1, 2)
    with E() as env:
        path = env.parent + "/data.h5"
        hs = [Harvester(Runner(lambda a: 0, var_names="x"), data_name=path) for _ in range(2)]
        ghost = {}
        for o, lab, v in ((o1, 1, v1), (o2, 2, v2), (o3, None, None), (o4, 3, v3)):
            h = hs[1 if cbool(o) else 0]
            if lab is None:
                h.drop_sel(a=dl)
                ghost = {k: x for k, x in ghost.items() if k != (dl,)}
            else:
                h.add_ds(mk_ds(env, {lab: v}))
                ghost = dict(ghost)
                ghost[(lab,)] = v
            if not same_cells(disk_cells(env, "data.h5", "h5netcdf") or {}, ghost):
                return False
            if not same_cells(cells_of(env, h.full_ds), ghost):
                return False
        return same_cells(cells_of(env, Harvester(None, data_name=path).full_ds), ghost)


def body_unsynced_first(E, ext, eng, n0, v1, v2, v3):
    """a new data name (no file yet): n0 = 1..2 harvests with sync=False, then a synced one: while there is no file
    the object's memory is the only copy, and the first synced step delivers all of it"""
    n0 = concretize(n0, 1, 2)
    engine = ["h5netcdf", "joblib"][concretize(eng, 0, 1)]
    with E() as env:
        name = "data.h5" if cbool(ext) else "data"
        path = env.parent + "/" + name
        h = Harvester(Runner(lambda a: 0, var_names="x"), data_name=path, engine=engine)
        ghost = {}
        steps = [(1, v1, False), (2, v2, False)][:n0] + [(3, v3, True)]
        for lab, v, sy in steps:
            h.add_ds(mk_ds(env, {lab: v}), sync=sy)
            ghost[(lab,)] = v
            if not same_cells(cells_of(env, h.full_ds), ghost):
                return False
        if not same_cells(disk_cells(env, name, engine) or {}, ghost):
            return False
        return same_cells(cells_of(env, Harvester(None, data_name=path, engine=engine).full_ds), ghost)


BODIES = {}
_G = globals()
_SIG = ("ext:bool eng:int pre_on:bool b1:int b2:int b3:int w1:int w2:int w3:int "
        "op:int pol:int sync:bool fresh:bool c1:int c2:int c3:int v1:int v2:int v3:int "
        "op2:int pol2:int fresh2:bool d1:int d2:int d3:int u1:int u2:int u3:int")
_RANGES = ("0 <= eng <= 1 and 0 <= op <= 3 and 0 <= pol <= 2 and 0 <= op2 <= 3 and 0 <= pol2 <= 2 and "
           "0 <= b1 <= 2 and 0 <= b2 <= 2 and 0 <= b3 <= 2 and 0 <= c1 <= 2 and 0 <= c2 <= 2 and 0 <= c3 <= 2 and "
           "0 <= d1 <= 2 and 0 <= d2 <= 2 and 0 <= d3 <= 2")

CONDS = [
    # (A) two add_ds steps: every cell pattern on overlapping coordinates x every policy
    make_cond(_G, "policies", body_hist, _SIG,
              [_RANGES, "ext and eng == 0 and not pre_on and b1 == 0 and b2 == 0 and b3 == 0",
               "op == 0 and pol == 0 and sync and not fresh and c3 == 0 and c1 >= 1 and c2 >= 1",
               "op2 == 0 and not fresh2 and d1 == 0 and d2 >= 1 and d3 >= 1"],
              timeout=300,
              bounds="two add_ds: first on labels {1,2}, second on {2,3}, each cell NaN or a symbolic value, all three "
                     "overwrite policies on the second step; memory, disk and a new session compared with the "
                     "cell-level oracle (conflict => MergeError and nothing changed)"),
    # (B) sessions, names, engines, operation kinds
    make_cond(_G, "sessions", body_hist, _SIG,
              [_RANGES, "not pre_on and b1 == 0 and b2 == 0 and b3 == 0",
               "0 <= op <= 2 and pol == 0 and sync and not fresh and c1 == 2 and c2 == 2 and c3 == 0",
               "0 <= op2 <= 3 and d1 == 0 and d2 == 2 and d3 == 2 and (pol2 != 0 or op2 == 0)"],
              timeout=400,
              bounds="first step add_ds|harvest_combos|harvest_cases on {1,2}; second step any of the four operations "
                     "(incl. save_merge_ds) on {2,3}, any policy; data name with/without extension; engine "
                     "h5netcdf|joblib; optional new Harvester object before the second step; symbolic values "
                     "(equal or conflicting on label 2)"),
    # (C) unsynced step
    make_cond(_G, "unsynced", body_hist, _SIG,
              [_RANGES, "ext and eng == 0 and b3 == 0 and 1 <= b1 and 1 <= b2",
               "0 <= op <= 2 and not sync and not fresh and c1 == 0 and c2 >= 1 and c3 >= 1",
               "op2 == 0 and pol2 == 0 and not fresh2 and d1 == 0 and d2 == 0 and d3 == 0"],
              fixed=dict(steps=1), timeout=300,
              bounds="arbitrary pre-state on {1,2}; one operation with sync=False on {2,3}: memory follows the "
                     "policy, disk is untouched"),
    make_cond(_G, "holes", body_hist, _SIG,
              [_RANGES, "ext and eng == 0 and pre_on and b3 == 0 and 1 <= b1 and 1 <= b2",
               "0 <= op <= 2 and sync and c3 == 0 and 1 <= c1 and 1 <= c2",
               "op2 == 0 and pol2 == 0 and not fresh2 and d1 == 0 and d2 == 0 and d3 == 0"],
              fixed=dict(steps=1), timeout=400,
              bounds="pre-state on labels {1,2} with NaN holes or values; one operation on the SAME labels (no new "
                     "coordinate) with NaN or values, any policy: holes are filled, values follow the policy"),
    make_cond(_G, "alias", body_alias, "v1:int v2:int w1:int disk:bool", ["w1 != v1"], timeout=120,
              bounds="first add_ds into an empty harvester (memory-only or synced) followed by an in-place edit of "
                     "the source dataset's data: the harvested values do not change"),
    make_cond(_G, "two_live", body_two_live, "o1:bool o2:bool o3:bool pol3:int v1:int v2:int v3:int",
              ["0 <= pol3 <= 2"], timeout=300,
              bounds="three synced add_ds steps on labels 1, 2, 1 issued through either of two simultaneously live "
                     "Harvester objects (every assignment), third step with any policy and equal or conflicting value: "
                     "disk and the acting object's memory follow the oracle"),
    make_cond(_G, "two_live_drop", body_two_live_drop,
              "o1:bool o2:bool o3:bool o4:bool dl:int v1:int v2:int v3:int", ["1 <= dl <= 2"], timeout=300,
              bounds="two simultaneously live Harvester objects: add label 1, add label 2, drop_sel of label 1 or 2, "
                     "add label 3, each step through either object (every assignment): disk, the acting object's "
                     "memory and a new session hold exactly the labels not dropped"),
    make_cond(_G, "unsynced_first", body_unsynced_first, "ext:bool eng:int n0:int v1:int v2:int v3:int",
              ["0 <= eng <= 1 and 1 <= n0 <= 2"], timeout=300,
              bounds="new data name (no file yet), with / without extension, both engines: one or two add_ds with "
                     "sync=False, then a synced add_ds: memory, disk and a new session hold everything harvested"),
    make_cond(_G, "reshape", body_reshape, "ext:bool v1:int v2:int v3:int fresh:bool", [], timeout=120,
              bounds="add_ds, expand_dims, optional new session, drop_sel: memory, disk and a new session agree"),
] + [c for pol in (0, 1, 2) for c in split_conds(
    # (D) one-step induction from an arbitrary consistent state
    _G, "induct_pol%d" % pol, body_hist, _SIG.replace("op:int ", "").replace("pol:int ", ""),
    [_RANGES.replace("0 <= op <= 3 and ", "").replace("0 <= pol <= 2 and ", ""), "ext and eng == 0 and pre_on",
     "sync and op2 == 0 and pol2 == 0 and not fresh2 and d1 == 0 and d2 == 0 and d3 == 0"],
    "op", [0, 1, 2, 3], fixed=dict(steps=1, pol=pol), timeout=1200, tiers=("thorough",),
    bounds="inductive step: arbitrary consistent pre-state (each of 3 cells absent/NaN/value, on disk; memory "
           "unloaded or reloaded by a new object) + one operation with an arbitrary dataset (3^3 patterns), "
           "policy %s, preserves memory = disk = policy(ghost, new)" % [None, True, False][pol])]

ASSUMPTIONS = [
    "xarray / numpy / joblib replaced by MiniXR / MiniNP / MiniJoblib in combo_runner, farming and manage "
    "(differentially checked against the real xarray on every run); xarray's own merge algorithms, dask chunks, "
    "zarr/netcdf4 engines and dtype changes are outside the claim",
    "file system replaced by FakeFS; to_netcdf / joblib.dump store a copy under the path the real save_ds computed",
    "missing and NaN cells are not distinguished by the oracle",
    "a step with sync=False ends the explored history once a file exists (what a later synced step should do with "
    "memory-only data when the file holds other data is not settled by the property text); before the first file "
    "exists, unsynced steps followed by a synced one are explored (unsynced_first)",
    "histories of length <= 2 over 3 coordinates x 1 variable, plus the one-step inductive form (thorough)",
]


def classify(cond, args, detail):
    if args.get("ext") is False:
        return "extensionless-data-name"
    return None
