"""C07 (Engine A part) - batches partition the work exactly.

Real code executed: Crop.sow_combos/sow_cases/choose_batch_settings/prepare/save_info/
_sync_info_from_disk/parse_constants/calc_progress/num_sown_batches, Sower, combo_runner_core,
case_runner, Runner.__init__ (farmer constants/resources).

The arithmetic over all n<=48 is decided by Engine B (vf/engine_b/c07.py); here the real sow
runs on FakeFS and the batch *files* are compared with the direct run's call log.
"""
from ..common import Cond, concretize, cbool, done, HarnessError, make_cond, split_conds
from .cropkit import (CROP_FUNCS, SYM, REAL, grid, case_list, mkfn, n_batches_expected,
                      batching_kwargs, crop_dir)

import xyzpy.gen.cropping as cp
from xyzpy.gen.combo_runner import combo_runner
from xyzpy.gen.case_runner import case_runner
from xyzpy.gen.farming import Runner

CONFORMANCE = ("fakefs", "random")
FUNCS = CROP_FUNCS


def body_partition(E, api, n, mode, b, shuf, farmer, cv, j1, j2, j3, j4, j5, resow=False, presow=False):
    api = concretize(api, 0, 4)        # 0 grid, 1 case tuples, 2 cases x sub-grid, 3 ONE case given as a bare dict x sub-grid
    #                                    4 cases x sub-grid through sow_cases(fn_args, cases, combos=<dict>)
    n = concretize(n, 1, 10)
    mode = concretize(mode, 0, 2)
    N = 2 * n if api in (2, 4) else n
    b = concretize(b, 1, N + 2)
    shuf = concretize(shuf, 0, 2)      # 0 none, 1 True, 2 int
    farmer = concretize(farmer, 0, 1)
    js = [0, j1, j2, j3, j4, j5] + [0] * 20

    log = []

    def fn(a=0, b=0, c=0, k=0, res=0, q=0):
        log.append(dict(a=a, b=b, c=c, k=k, res=res, q=q))
        return 0

    consts = {"k": cv}
    if farmer:
        consts["q"] = cv + 5          # a sow-time constant that overrides the farmer's stored constant "q"
    with E(pools=[js[:N]]) as env:
        shuffle = False if shuf == 0 else (True if shuf == 1 and env.mode == "sym" else env.seed_for(js[:N], N))
        # ---- direct run: the kwargs every setting must be sown with
        if farmer:
            runner = Runner(fn, var_names="out", constants={"q": 3}, resources={"res": cv + 1})
            full_consts = {"q": cv + 5, "res": cv + 1, "k": cv}     # what run_combos(constants=consts) passes
        else:
            runner = None
            full_consts = dict(consts)
        if api == 0:
            combo_runner(fn, grid(n), constants=full_consts, verbosity=0)
        elif api == 1:
            case_runner(fn, ("a", "b"), case_list(n), constants=full_consts, verbosity=0)
        elif api == 2:
            combo_runner(fn, {"b": [20, 21]}, cases=[{"a": 10 + i} for i in range(n)],
                         constants=full_consts, verbosity=0)
        elif api == 4:
            case_runner(fn, ("a",), [(10 + i,) for i in range(n)], combos={"b": [20, 21]},
                        constants=full_consts, verbosity=0)
        else:
            combo_runner(fn, {"b": [20 + i for i in range(n)]}, cases={"a": 10, "c": 3},
                         constants=full_consts, verbosity=0)
        want = [dict(kw) for kw in log]
        if len(want) != N:
            raise HarnessError("direct run made %d calls" % len(want))
        # ---- sow
        kw = batching_kwargs(mode, b)
        if cbool(presow) and api == 0 and not farmer:
            # the directory already holds a sowing of the same settings as ONE batch; the crop is started over
            # with the requested batching (autoload=False): what it reports and stores is the new layout
            cp.Crop(fn=fn, name="t", parent_dir=env.parent, batchsize=N).sow_combos(grid(n), constants=consts,
                                                                                    verbosity=0)
            kw = dict(kw, autoload=False)
        if farmer:
            crop = cp.Crop(farmer=runner, name="t", parent_dir=env.parent,
                           **(dict(shuffle=shuffle) if api == 1 else {}), **kw)
        else:
            crop = cp.Crop(fn=fn, name="t", parent_dir=env.parent,
                           **(dict(shuffle=shuffle) if api == 1 else {}), **kw)
        if api == 0:
            crop.sow_combos(grid(n), constants=consts, shuffle=shuffle, verbosity=0)
        elif api == 1:
            crop.sow_cases(("a", "b"), case_list(n), constants=consts, verbosity=0)
        elif api == 2:
            crop.sow_combos({"b": [20, 21]}, cases=[{"a": 10 + i} for i in range(n)],
                            constants=consts, shuffle=shuffle, verbosity=0)
        elif api == 4:
            crop.sow_cases(("a",), [(10 + i,) for i in range(n)], combos={"b": [20, 21]},
                           constants=consts, verbosity=0)
        else:
            crop.sow_combos({"b": [20 + i for i in range(n)]}, cases={"a": 10, "c": 3},
                            constants=consts, shuffle=shuffle, verbosity=0)
        kw = {k_: v_ for k_, v_ in kw.items() if k_ != "autoload"}
        if cbool(resow):
            # "you can safely resow": a second sow of the same crop, by the same object or by one re-created
            # with the same constructor arguments, leaves the same partition
            if api == 0:
                crop.sow_combos(grid(n), constants=consts, shuffle=shuffle, verbosity=0)
            crop = cp.Crop(fn=fn, name="t", parent_dir=env.parent, **kw) if not farmer else \
                cp.Crop(farmer=runner, name="t", parent_dir=env.parent, **kw)
            if api == 0:
                crop.sow_combos(grid(n), constants=consts, shuffle=shuffle, verbosity=0)
        # ---- the files
        B = n_batches_expected(N, mode, b)
        bdir = crop_dir(env) + "/batches"
        names = env.listdir(bdir)
        if names != sorted("xyz-batch-%d.jbdmp" % i for i in range(1, B + 1)):
            return False
        sizes = []
        seen = []
        keys = ("a", "b", "c", "k", "res", "q")
        for i in range(1, B + 1):
            batch = env.read_obj(bdir + "/xyz-batch-%d.jbdmp" % i)
            if len(batch) < 1:
                return False
            sizes.append(len(batch))
            for kws in batch:
                full = dict(a=0, b=0, c=0, k=0, res=0, q=0)
                for kk in kws:
                    if kk not in keys:
                        return False
                full.update(kws)
                seen.append(full)
        if sum(sizes) != N:
            return False
        # exactly-once, with exactly the kwargs of the direct run (order free under shuffle)
        for w in want:
            hits = 0
            for s in seen:
                if all(s[kk] == w[kk] for kk in keys):
                    hits += 1
            if hits != 1:
                return False
        if shuf == 0 and not all(all(s[kk] == w[kk] for kk in keys) for s, w in zip(seen, want)):
            return False   # un-shuffled sowing keeps the direct run's order
        if mode == 1 and not (max(sizes) <= b and B == -(-N // b)):
            return False
        if mode == 2 and not (B == min(b, N) and max(sizes) - min(sizes) <= 1):
            return False
        if mode == 0 and not all(s == 1 for s in sizes):
            return False
        # reported numbers, before and after a reload from disk
        rep = (crop.batchsize, crop.num_batches, crop.num_sown_batches, crop._batch_remainder)
        crop2 = cp.Crop(name="t", parent_dir=env.parent)
        rep2 = (crop2.batchsize, crop2.num_batches, crop2.num_sown_batches, crop2._batch_remainder)
        if rep != rep2 or rep[1] != B or rep[2] != B:
            return False
        # ... also when re-created with the constructor call of the sowing script (what a separate grow / reap
        # script typically does): what is on disk wins
        crop3 = cp.Crop(fn=fn, name="t", parent_dir=env.parent, **kw) if not farmer else \
            cp.Crop(farmer=runner, name="t", parent_dir=env.parent, **kw)
        rep3 = (crop3.batchsize, crop3.num_batches, crop3.num_sown_batches, crop3._batch_remainder)
        if rep3 != rep or crop3.missing_results() != tuple(range(1, B + 1)):
            return False
        if mode == 1 and rep[0] != b:
            return False
        if mode == 2 and not (rep[0] == N // B and rep[3] == N % B):
            return False
        return True


def body_invalid(E, mode, b):
    """non-positive or non-integer requests are rejected and nothing is written"""
    mode = concretize(mode, 1, 2)
    b = concretize(b, -1, 1)
    fn = mkfn(0)
    with E() as env:
        bad = [0, -1, 2.5][b + 1]
        crop = cp.Crop(fn=fn, name="t", parent_dir=env.parent, **batching_kwargs(mode, bad))
        try:
            crop.sow_combos(grid(4), verbosity=0)
        except (ValueError, TypeError):
            return not env.exists(crop_dir(env) + "/batches/xyz-batch-1.jbdmp")
        return False


BODIES = {}
_G = globals()
_SIG = "n:int mode:int b:int shuf:int farmer:int cv:int j1:int j2:int j3:int j4:int j5:int resow:bool presow:bool"
_J = "0 <= j1 <= 1 and 0 <= j2 <= 2 and 0 <= j3 <= 3 and 0 <= j4 <= 4 and 0 <= j5 <= 5"

CONDS = (
    split_conds(_G, "partition", body_partition, _SIG,
                ["1 <= n <= 6 and 0 <= mode <= 2 and 1 <= b <= n + 2 and shuf == 0 and 0 <= farmer <= 1",
                 "j1 == 0 and j2 == 0 and j3 == 0 and j4 == 0 and j5 == 0", "not resow or (API == 0 and farmer == 0)",
                 "not presow"],
                "api", [0, 1],
                timeout=300, tiers=("quick",),
                bounds="N<=6 settings, batchsize 1..N+1 / num_batches 1..N+2 / neither, with and without a Runner "
                       "farmer contributing constants and resources; for grids also after a re-sow by the same and by "
                       "a re-created object; reports compared after reload by name and by constructor call; api 0 "
                       "grid, 1 case list")
    + [make_cond(_G, "partition_presow", body_partition, _SIG,
                 ["1 <= n <= 6 and 0 <= mode <= 2 and 1 <= b <= n + 2 and shuf == 0 and farmer == 0",
                  "j1 == 0 and j2 == 0 and j3 == 0 and j4 == 0 and j5 == 0", "not resow and presow"], fixed=dict(api=0),
                 timeout=300, bounds="a directory that already holds a one-batch sowing of the same grid, started "
                                     "over with Crop(..., autoload=False) and the requested batching: files, reports "
                                     "and reloads show the new layout")]
    + [make_cond(_G, "partition_api2", body_partition, _SIG,
                 ["1 <= n <= 3 and 0 <= mode <= 2 and 1 <= b <= 2 * n + 2 and shuf == 0 and 0 <= farmer <= 1",
                  "j1 == 0 and j2 == 0 and j3 == 0 and j4 == 0 and j5 == 0", "not resow and not presow"], fixed=dict(api=2),
                 timeout=300, tiers=("quick",), bounds="cases x sub-grid, N=2n<=6, all batchings, farmer on/off")]
    + [make_cond(_G, "partition_api4", body_partition, _SIG,
                 ["1 <= n <= 3 and 0 <= mode <= 2 and 1 <= b <= 2 * n + 2 and shuf == 0 and 0 <= farmer <= 1",
                  "j1 == 0 and j2 == 0 and j3 == 0 and j4 == 0 and j5 == 0", "not resow and not presow"], fixed=dict(api=4),
                 timeout=300, bounds="cases x sub-grid through sow_cases(fn_args, cases, combos=<dict>), N=2n<=6, "
                                     "all batchings, farmer on/off")]
    + [make_cond(_G, "partition_api3", body_partition, _SIG,
                 ["1 <= n <= 6 and 0 <= mode <= 2 and 1 <= b <= n + 2 and shuf == 0 and farmer == 0",
                  "j1 == 0 and j2 == 0 and j3 == 0 and j4 == 0 and j5 == 0", "not resow and not presow"], fixed=dict(api=3),
                 timeout=300, bounds="one case given as a bare dict of two arguments x a sub-grid of N<=6 values, "
                                     "all batchings")]
    + split_conds(_G, "partition_shuffled", body_partition, _SIG,
                  ["2 <= n <= 4 and 1 <= mode <= 2 and 1 <= b <= 3 and 1 <= shuf <= 2 and farmer == 0",
                   _J, "j4 == 0 and j5 == 0", "not resow and not presow"], "api", [0, 1], timeout=300,
                  bounds="shuffle=True/int, every permutation of N<=4 settings, batchsize/num_batches in 1..3")
    + [make_cond(_G, "partition_t_api%d_n%d" % (api, n), body_partition,
                 "mode:int b:int farmer:int cv:int",
                 ["0 <= mode <= 2 and 1 <= b <= %d and 0 <= farmer <= 1" % ((2 * n if api == 2 else n) + 2)],
                 fixed=dict(api=api, n=n, shuf=0, j1=0, j2=0, j3=0, j4=0, j5=0, resow=False), timeout=400,
                 tiers=("thorough",),
                 bounds="N=%d settings, all batchings, farmer on/off [api=%d]" % (2 * n if api == 2 else n, api))
       for api in range(3) for n in ((7, 8, 9, 10) if api != 2 else (4, 5))]
    + [make_cond(_G, "invalid", body_invalid, "mode:int b:int", ["1 <= mode <= 2 and -1 <= b <= 1"], timeout=60,
                 bounds="batchsize / num_batches in {0, -1, 2.5}: rejected with ValueError/TypeError, nothing sown")]
)

ASSUMPTIONS = [
    "file system replaced by FakeFS in object mode; pickling of function/farmer replaced by an identity stub",
    "`random` replaced by NDRandom for the shuffled conditions",
    "N > 10 is covered only by the Engine B kernel result (sizes), not by file contents",
    "both batchsize and num_batches given by the user: outside the claim",
]
