"""C16 (PARTIAL: Python side) - generated cluster scripts and the grow CLI grow exactly the
intended batches.

Method: the generated text is cut, with an independent regular expression per scheduler, into the
array range of the header and the here-document; the shell is modelled by substituting the
scheduler's task variable by the Python name TASK (contract: an unquoted here-document expands
$NAME and nothing else in the templates is shell-active); the program is compiled (a SyntaxError
is a refutation) and executed with TASK = tau, a solver variable ranging over the header range,
with xyzpy.gen.cropping.grow replaced by a recorder and Crop real on FakeFS.
NOT decided: bash itself (quoting of unusual names, `read -r -d ''` exit status, scheduler
directive syntax).

Real code executed: gen_cluster_script and all templates, Crop.gen_*_script partials, Crop.grow,
grow_missing, missing_results, calc_progress, xyzpy_grow_cli.main.
"""
import re
import sys

from ..common import Cond, concretize, cbool, done, HarnessError, make_cond, split_conds
from .cropkit import CROP_FUNCS, SYM, REAL, grid, mkfn, crop_dir

import xyzpy.gen.cropping as cp
import xyzpy.gen.xyzpy_grow_cli as cli
from xyzpy.gen.combo_runner import combo_runner

FUNCS = [cp.gen_cluster_script, cp.Crop.grow, cp.Crop.grow_missing, cp.Crop.missing_results, cli.main]
CONFORMANCE = ("fakefs",)
LEVEL = "other"

SCHED = ["sge", "pbs", "slurm"]
TASKVAR = {"sge": "$SGE_TASK_ID", "pbs": "$PBS_ARRAY_INDEX", "slurm": "$SLURM_ARRAY_TASK_ID"}
RANGE_RX = {"sge": r"^#\$ -t (\d+)-(\d+)$", "pbs": r"^#PBS -J (\d+)-(\d+)$", "slurm": r"^#SBATCH --array=(\d+)-(\d+)$"}


def _quiet(*a, **k):
    pass


def cut(script, scheduler):
    """(array range or None, python program with the task variable replaced by TASK, directory the script changes
    into before it launches the program or None)"""
    lines = script.split("\n")
    cds = [ln[3:].strip() for ln in lines if ln.startswith("cd ")]
    if len(cds) > 1:
        raise ValueError("more than one cd")
    if not lines[0].startswith("#!/bin/bash"):
        raise ValueError("no shebang")
    rng = None
    for ln in lines:
        m = re.match(RANGE_RX[scheduler], ln)
        if m:
            if rng is not None:
                raise ValueError("two array directives")
            rng = (int(m.group(1)), int(m.group(2)))
    start = script.index("read -r -d '' SCRIPT << EOM\n") + len("read -r -d '' SCRIPT << EOM\n")
    end = script.index("\nEOM\n", start)
    prog = script[start:end]
    tail = script[end + len("\nEOM\n"):]
    if '-c "$SCRIPT"' not in tail:
        raise ValueError("the program is never launched")
    for var in TASKVAR.values():
        if var in prog and var != TASKVAR[scheduler]:
            raise ValueError("foreign task variable")
    prog = prog.replace(TASKVAR[scheduler], "TASK")
    if "$" in prog:
        raise ValueError("unexpanded shell variable left in the program")
    if cds and script.index("\ncd " + cds[0]) > start:
        raise ValueError("cd after the here-document")
    return rng, prog, (cds[0] if cds else None)


def body_script(E, sched, single, B, f1, f2, f3, f4, ask, q1, q2, q3, q4, tau, opt, nw, base, rel=False):
    scheduler = SCHED[concretize(sched, 0, 2)]
    single = cbool(single)
    B = concretize(B, 1, 4)
    fin = [k + 1 for k, f in enumerate([f1, f2, f3, f4][:B]) if cbool(f)]
    ask = cbool(ask)
    asked = [k + 1 for k, f in enumerate([q1, q2, q3, q4][:B]) if cbool(f)]
    if ask and not asked:
        asked = [B]
    opt = concretize(opt, 0, 3)
    nw = concretize(nw, 0, 1)
    fn = mkfn(base)
    per = 2 if nw else 1                 # two settings per batch when the script asks for worker processes
    with E() as env:
        ref = combo_runner(fn, grid(B * per), verbosity=0)
        parent = env.parent
        if cbool(rel):
            # the crop lives in a directory given relative to the directory the user works in; the scheduler starts
            # the job somewhere else (the script has to find the crop whatever its own start directory)
            import os as _os

            if env.mode == "sym":
                env.fs.cwd = _os.getcwd()      # pathlib (used by gen_cluster_script) resolves against the real cwd
                env.fs.makedirs(_os.getcwd(), exist_ok=True)
            else:
                env.chdir(env.parent)
            parent = "runs"
        crop = cp.Crop(fn=fn, name="t", parent_dir=parent, batchsize=per)
        crop.sow_combos(grid(B * per), verbosity=0)
        for i in fin:
            cp.grow(i, crop=crop, verbosity=0)
        if len(fin) == B and not ask:
            return True                               # nothing to do: not a case of the property
        opts = [dict(minutes=20), dict(time=2, gigabytes=4), dict(hours=1, minutes=5, seconds=7, mem=8),
                dict(time="1:30:00", requeue=None, gpu=1)][opt]
        if scheduler != "slurm":
            opts.pop("requeue", None)
        if nw:
            opts.update(num_workers=2, num_procs=4)
        else:
            opts.update(num_procs=2)
        script = crop.gen_cluster_script(scheduler, batch_ids=tuple(asked) if ask else None,
                                         mode="single" if single else "array", conda_env=False, **opts)
        rng, prog, cd = cut(script, scheduler)
        abs_parent = env.parent
        if cbool(rel):
            import os as _os

            abs_parent = _os.path.join(_os.getcwd(), "runs")
            if env.mode == "sym":
                env.fs.makedirs("/elsewhere", exist_ok=True)
            env.chdir("/elsewhere" if env.mode == "sym" else "/")      # where the scheduler starts the job
        if cd is not None:
            env.chdir(cd)                                             # the script's own `cd`
        want = list(asked) if ask else [i for i in range(1, B + 1) if i not in fin]
        code = compile(prog, "<generated cluster script>", "exec")      # SyntaxError => refutation
        grown = []
        grow_kw = {}

        def recorder(batch_number, crop=None, **kw):
            if crop is None or crop.name != "t":
                raise HarnessError("grow called without the crop")
            if not single and kw.get("num_workers") != (2 if nw else None):
                raise HarnessError("num_workers not forwarded: %r" % (kw,))
            grown.append(batch_number)
            grow_kw[batch_number] = {k: v for k, v in kw.items() if k == "num_workers" and v is not None}

        real_grow = cp.grow
        env._set(cp, "grow", recorder)
        import xyzpy.gen.combo_runner as cr
        from ..stubs import basic

        pool = basic.SubmitExecutor(None)
        env._set(cr, "get_reusable_executor", lambda *a, **k: pool)
        # within-batch worker pool of the module-level grow: results must keep the sown order whatever the
        # completion order (real replay: a thread pool and a function whose first case is the slowest)
        if env.mode == "sym":
            wpool = basic.EagerFutureExecutor()
        else:
            from concurrent.futures import ThreadPoolExecutor

            wpool = ThreadPoolExecutor(2)
        env._set(cp, "get_reusable_executor", lambda *a, **k: wpool)
        if single:
            if rng is not None:
                return False
            exec(code, {"__name__": "__main__", "print": _quiet})
            if sorted(grown) != sorted(want) or len(set(grown)) != len(grown):
                return False
        else:
            if len(want) == 1 and scheduler == "pbs":
                if rng is not None:
                    return False                          # PBS cannot run arrays of size 1
                exec(code, {"__name__": "__main__", "TASK": None, "print": _quiet})
                if grown != want:
                    return False
            else:
                if rng != (1, len(want)):
                    return False
                if not (1 <= tau <= len(want)):
                    return True                           # outside the header range: not a task
                t = concretize(tau, 1, len(want))         # every index of the header range
                exec(code, {"__name__": "__main__", "TASK": t, "print": _quiet})
                if grown != [want[t - 1]]:                # tau -> id is the order-preserving bijection
                    return False
        # really growing what the scripts grow makes the crop ready, with exact results
        env._set(cp, "grow", real_grow)
        c2 = cp.Crop(name="t", parent_dir=abs_parent)
        for i in want:
            kw = dict(grow_kw.get(i, {}))
            if kw and env.mode == "real":
                from .C04 import _slow_first

                kw["fn"] = _slow_first(fn)
            cp.grow(i, crop=c2, verbosity=0, **kw)           # grown the way the script grows it
        if not ask:
            if not c2.is_ready_to_reap():
                return False
            return c2.reap() == ref
        return sorted(set(fin) | set(want)) == [i for i in range(1, B + 1) if i not in c2.missing_results()]


def body_cli(E, B, f1, f2, f3, base):
    """xyzpy-grow <name> --parent-dir <dir>: grows exactly the missing batches"""
    import os as _os

    B = concretize(B, 1, 3)
    fin = [k + 1 for k, f in enumerate([f1, f2, f3][:B]) if cbool(f)]
    if len(fin) == B:
        fin = fin[:-1]
    fn = mkfn(base)
    with E() as env:
        ref = combo_runner(fn, grid(B), verbosity=0)
        crop = cp.Crop(fn=fn, name="xy-z", parent_dir=env.parent, batchsize=1)
        crop.sow_combos(grid(B), verbosity=0)
        for i in fin:
            cp.grow(i, crop=crop, verbosity=0)
        grown = []
        real_grow = cp.grow

        def recorder(batch_number, crop=None, **kw):
            grown.append(batch_number)
            return real_grow(batch_number, crop=crop, **{**kw, "verbosity": 0})

        env._set(cp, "grow", recorder)
        # the crop's function may live in a module next to the crop (pickled by reference): the parent directory
        # has to be importable by the time the crop (and with it the function) is loaded
        import xyzpy as _xyz

        importable = []

        def crop_factory(*a, **k):
            importable.append(env.parent in sys.path)
            return cp.Crop(*a, **k)

        env._set(_xyz, "Crop", crop_factory)
        argv, environ, path = sys.argv, dict(_os.environ), list(sys.path)
        sys.argv = ["xyzpy-grow", "xy-z", "--parent-dir", env.parent, "--verbosity", "0"]
        env._set(cli, "print", lambda *a, **k: None)
        try:
            cli.main()
        finally:
            sys.argv = argv
            sys.path[:] = path
            for k in list(_os.environ):
                if k not in environ:
                    del _os.environ[k]
            _os.environ.update(environ)
        if sorted(grown) != [i for i in range(1, B + 1) if i not in fin]:
            return False
        if importable != [True]:
            return False
        c2 = cp.Crop(name="xy-z", parent_dir=env.parent)
        return c2.is_ready_to_reap() and c2.reap() == ref


BODIES = {}
_G = globals()
_SIG = ("single:bool B:int f1:bool f2:bool f3:bool f4:bool ask:bool q1:bool q2:bool q3:bool q4:bool tau:int "
        "opt:int nw:int base:int")

CONDS = (
    [c for sg in (False, True) for c in split_conds(
        _G, "script_%s" % ("single" if sg else "array"), body_script, _SIG.replace("single:bool ", ""),
                ["1 <= B <= 3 and 1 <= tau <= 3 and 0 <= opt <= 3 and 0 <= nw <= 1", "not f4 and not q4",
                 "opt == 0 or (B == 2 and not ask)", "nw == 0 or (B == 2 and not ask)"]
                + (["tau == 1"] if sg else []),
                "sched", [0, 1, 2], fixed=dict(single=sg), timeout=600,
                bounds="scheduler (0 sge, 1 pbs, 2 slurm) x mode array|single x crops of B<=3 batches with every "
                       "finished subset x batch_ids None | every non-empty subset x every array task index; resource "
                       "option spellings and num_workers on the B=2 crops")]
    + split_conds(_G, "script4", body_script, _SIG.replace("B:int ", ""),
                  ["1 <= tau <= 4 and opt == 0 and nw == 0"], "sched", [0, 1, 2], fixed=dict(B=4), timeout=1800,
                  tiers=("thorough",), bounds="as script with B=4 batches")
    + [make_cond(_G, "script_relative", body_script, "sched:int single:bool f1:bool tau:int base:int",
                 ["0 <= sched <= 2 and 1 <= tau <= 2"],
                 fixed=dict(B=2, f2=False, f3=False, f4=False, ask=False, q1=False, q2=False, q3=False, q4=False,
                            opt=0, nw=0, rel=True), timeout=300,
                 bounds="crop created with a RELATIVE parent directory ('runs'), job started in another directory; "
                        "the script's `cd` line is honoured: each scheduler x mode x task index grows the intended "
                        "batch of that crop")]
    + [make_cond(_G, "cli", body_cli, "B:int f1:bool f2:bool f3:bool base:int", ["1 <= B <= 3"], timeout=300,
                 bounds="xyzpy-grow command line (crop named 'xy-z') on crops of B<=3 batches with every proper finished subset: grows "
                        "exactly the missing batches, crop ready, exact results")]
)

ASSUMPTIONS = [
    "PARTIAL CLAIM: bash is not executed; the shell is modelled as the substitution of the scheduler's task "
    "variable inside an unquoted here-document; validity of the text as a shell script and of the scheduler "
    "directives is outside the claim",
    "file system replaced by FakeFS; CONDA_DEFAULT_ENV not set (conda_env=False)",
    "B<=3 quick, 4 thorough (8 in the property text is not reached)",
]


def classify(cond, args, detail):
    return None
