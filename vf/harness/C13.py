"""C13 - missing-data discovery reports exactly the locations that have no data.

Real code executed: is_case_missing, find_missing_cases, parse_into_cases (case_runner.py) and
Harvester.harvest_cases for the find -> harvest -> find loop.  xarray / numpy are MiniXR / MiniNP
(the function-local `import numpy as np` of is_case_missing is served from sys.modules).

Each cell of the dataset is a symbolic *kind* (0 finite, 1 NaN, 2 +inf, 3 -inf): null tests return
symbolic booleans that MiniXR combines with `&`, so a location's verdict is one z3 term and the
only forks are the ones inherent in the returned tuple (2 per location).
"""
from ..common import Cond, concretize, cbool, done, HarnessError, make_cond, split_conds
from ..env import Env
from ..stubs import minixr as mx

import xyzpy.gen.case_runner as ca
from xyzpy.gen.farming import Harvester, Runner

FUNCS = [ca.is_case_missing, ca.find_missing_cases, ca.parse_into_cases]
CONFORMANCE = ("minixr",)

A = [1, 2, 3]
B = [10, 20]
T = [0, 1]


class Cell:
    """a dataset cell whose null-ness is a solver variable"""

    def __init__(self, kind):
        self.kind = kind

    def _vf_isnull(self):
        return self.kind == 1

    def _vf_isfinite(self):
        return self.kind == 0

    def _vf_eq(self, other):
        # comparison of the cell's value with a float (the finite value is 5.0)
        if isinstance(other, float) and other == float("inf"):
            return self.kind == 2
        if isinstance(other, float) and other == float("-inf"):
            return self.kind == 3
        if isinstance(other, float) and other != other:
            return False
        return (self.kind == 0) & (other == 5.0)

    def __eq__(self, other):
        return isinstance(other, Cell) and self.kind == other.kind

    def __hash__(self):
        return 0


def SYM(**kw):
    kw.setdefault("xr", True)
    e = Env("sym", **kw)
    return e


def REAL(**kw):
    kw.pop("xr", None)
    return Env("real", **kw)


def real_value(kind):
    return [5.0, float("nan"), float("inf"), float("-inf")][kind]


BNAMES = ["b", "tolerance", "drop", "method"]     # names of the second dimension (three are option names of Dataset.sel)


def build(env, n1, n2, nvars, idim, kinds, transposed=False, bname="b", zvar=False):
    """dataset over a (n1) x b (n2, 0 = no such dim) with x(a,b[,t]) and optionally y(a,b)"""
    la, lb = A[:n1], B[:n2]
    it = iter(kinds)
    cellsx, cellsy = {}, {}
    cellsz = {}
    if zvar:
        for a in la:
            cellsz[a] = next(it)           # a variable z(a) that spans only ONE of the parameter dimensions
    for a in la:
        for b in (lb or [None]):
            for t in (T if idim else [None]):
                cellsx[(a, b, t)] = next(it)
            if nvars == 2:
                cellsy[(a, b)] = next(it)

    def val(k):
        return Cell(k) if env.mode == "sym" else real_value(k)

    def nest_x():
        return [[[val(cellsx[(a, b, t)]) for t in T] if idim else val(cellsx[(a, b, None)])
                 for b in lb] if lb else ([val(cellsx[(a, None, t)]) for t in T] if idim else val(cellsx[(a, None, None)]))
                for a in la]

    def nest_y():
        return [[val(cellsy[(a, b)]) for b in lb] if lb else val(cellsy[(a, None)]) for a in la]

    dims = ("a",) + ((bname,) if lb else ())
    coords = {"a": la}
    if lb:
        coords[bname] = lb
    if idim:
        coords["time"] = T
    dv = {"x": (dims + (("time",) if idim else ()), nest_x())}
    if nvars == 2:
        dv["y"] = (dims, nest_y())
    if zvar:
        dv["z"] = (("a",), [val(cellsz[a]) for a in la])
        for (a, b_) in list(cellsy) if nvars == 2 else []:
            pass
        # z counts for every location (a, .): fold it into the per-location bookkeeping of y
        for a in la:
            for b_ in (lb or [None]):
                cellsy[("z", a, b_)] = cellsz[a]
    if transposed and lb and not idim and nvars == 1:
        # the variable is stored as (b, a) although the coordinates are declared a, b: then Dataset.dims is
        # (b, a) while the coordinates / indexes keep the order (a, b)
        dv = {"x": ((bname, "a"), [[val(cellsx[(a, b, None)]) for a in la] for b in lb])}
    if env.mode == "sym":
        ds = mx.Dataset(coords=coords, data_vars=dv)
    else:
        import numpy as np
        import xarray as xr

        ds = xr.Dataset(coords=coords, data_vars={k: (d, np.array(v, dtype=float)) for k, (d, v) in dv.items()})
    return ds, cellsx, cellsy, la, lb


def loc_missing(method, cellsx, cellsy, a, b, idim, nvars, t=None):
    """independent definition: every cell of every variable at the location is null / non-finite"""
    ks = []
    if t is None:
        ks += [cellsx[(a, b, tt)] for tt in (T if idim else [None])]
        if nvars == 2:
            ks.append(cellsy[(a, b)])
    else:
        ks.append(cellsx[(a, b, t)])
        if nvars == 2:
            ks.append(cellsy[(a, b)])     # y has no t dimension: the whole (a, b) cell counts
    if ("z", a, b) in cellsy:
        ks.append(cellsy[("z", a, b)])    # z(a) holds for every b
    # one conjunction term (no short-circuit forks): decided by the solver in a single query
    out = True
    for k in ks:
        c = (k == 1) if method == "isnull" else (k != 0)
        out = mx._and(out, c)
    return out


def body_find(E, n1, n2, nvars, idim, meth, ign, k0, k1, k2, k3, k4, k5, k6, k7, k8, k9, k10, k11,
              k12, k13, k14, k15, k16, k17, transposed=False, bn=0, zvar=False):
    n1 = concretize(n1, 1, 3)
    n2 = concretize(n2, 0, 2)
    nvars = concretize(nvars, 1, 2)
    idim = cbool(idim)
    method = ["isnull", "isfinite"][concretize(meth, 0, 1)]
    ign = concretize(ign, 0, 3)        # 0 None, 1 't' (str), 2 {'t'} (set), 3 nothing ignored although t exists
    kinds = [k0, k1, k2, k3, k4, k5, k6, k7, k8, k9, k10, k11, k12, k13, k14, k15, k16, k17]
    with E() as env:
        if env.mode == "sym":
            env.swap_module("numpy", env.np)
        transposed = cbool(transposed) and n2 >= 1 and not idim and nvars == 1
        bname = BNAMES[concretize(bn, 0, 3)]
        ds, cx, cy, la, lb = build(env, n1, n2, nvars, idim, kinds, transposed, bname, cbool(zvar))
        if not idim:
            ignore = None
        else:
            ignore = ["time", "time", {"time"}, None][ign]
        fn_args, missing = ca.find_missing_cases(ds, ignore_dims=ignore, method=method)
        over_t = idim and ignore is None
        want_args = ("a",) + ((bname,) if lb else ()) + (("time",) if over_t else ())
        if transposed:
            want_args = (bname, "a")          # grid order = the dataset's dimension order
        if tuple(fn_args) != want_args:
            return False
        want = []
        if transposed:
            for b in lb:
                for a in la:
                    if loc_missing(method, cx, cy, a, b, idim, nvars, None):
                        want.append((b, a))
        else:
            for a in la:
                for b in (lb or [None]):
                    for t in (T if over_t else [None]):
                        if loc_missing(method, cx, cy, a, b, idim, nvars, t):
                            want.append((a,) + ((b,) if lb else ()) + ((t,) if over_t else ()))
        got = [tuple(_py(v) for v in c) for c in missing]
        return got == want


def _py(x):
    try:
        return x.item()
    except AttributeError:
        return x


def body_requested(E, meth, viacases, k0, k1, k2, k3):
    """parse_into_cases over requested combos / cases, including labels absent from the dataset"""
    method = ["isnull", "isfinite"][concretize(meth, 0, 1)]
    with E() as env:
        if env.mode == "sym":
            env.swap_module("numpy", env.np)
        ds, cx, cy, la, lb = build(env, 2, 2, 1, False, [k0, k1, k2, k3])
        if cbool(viacases):
            out = ca.parse_into_cases(combos={"b": [10, 20, 30]}, cases=[{"a": 2}, {"a": 1}, {"a": 9}], ds=ds,
                                      method=method)
            order = [(a, b) for a in (2, 1, 9) for b in (10, 20, 30)]
        else:
            out = ca.parse_into_cases(combos={"a": [1, 9, 2], "b": [20, 10]}, ds=ds, method=method)
            order = [(a, b) for a in (1, 9, 2) for b in (20, 10)]
        want = []
        for a, b in order:
            absent = a not in la or b not in lb
            if absent or loc_missing(method, cx, cy, a, b, False, 1):
                want.append({"a": a, "b": b})
        if out != want:
            return False
        # without a dataset everything requested is returned, in product order, without duplicates
        allc = ca.parse_into_cases(combos={"a": [1, 2], "b": [10]}, cases=None)
        return allc == [{"a": 1, "b": 10}, {"a": 2, "b": 10}]


def body_loop(E, k0, k1, k2, k3, v):
    """find -> harvest exactly the reported cases -> find reports nothing; existing data untouched"""
    with E(fs="obj") as env:
        if env.mode == "sym":
            env.swap_module("numpy", env.np)
        kinds = [concretize(k, 0, 1) for k in (k0, k1, k2, k3)]
        la, lb = A[:2], B[:2]
        vals = {}
        it = iter(kinds)
        for a in la:
            for b in lb:
                vals[(a, b)] = mx.NAN if next(it) == 1 else 100 * a + b + v
        nest = [[vals[(a, b)] for b in lb] for a in la]
        if env.mode == "sym":
            ds = mx.Dataset(coords={"a": la, "b": lb}, data_vars={"x": (("a", "b"), nest)})
        else:
            import numpy as np
            import xarray as xr

            ds = xr.Dataset(coords={"a": la, "b": lb}, data_vars={"x": (("a", "b"), np.array(nest, dtype=float))})
        calls = []

        def fn(a, b):
            calls.append((a, b))
            return 7 + v

        h = Harvester(Runner(fn, var_names="x"), data_name=None, full_ds=ds)
        fn_args, missing = ca.find_missing_cases(h.full_ds)
        missing = [tuple(_py(x) for x in c) for c in missing]
        if missing != [k for k in ((a, b) for a in la for b in lb) if isinstance(vals[k], float)]:
            return False
        if missing:
            h.harvest_cases([dict(zip(fn_args, c)) for c in missing], verbosity=0)
        if sorted(calls) != sorted(missing):
            return False
        _, again = ca.find_missing_cases(h.full_ds)
        if tuple(again) != ():
            return False
        full = h.full_ds
        for (a, b), old in vals.items():
            got = full["x"].sel({"a": a, "b": b})
            got = got.item() if env.mode == "sym" else got.values.item()
            if isinstance(old, float):
                if got != 7 + v:
                    return False
            elif got != old:
                return False
        return True


BODIES = {}
_G = globals()
_K = " ".join("k%d:int" % i for i in range(18))
_KR = " and ".join("0 <= k%d <= 3" % i for i in range(18))

_SIGF = "n1:int n2:int ign:int transposed:bool " + _K
_B1 = ("datasets over a (1-3) x b (absent, 1, 2): <= 6 locations, one variable, every cell finite/NaN/+inf/-inf "
       "(symbolic kinds); ")

CONDS = (
    split_conds(_G, "find_plain", body_find, _SIGF, ["1 <= n1 <= 3 and 0 <= n2 <= 2 and ign == 0", _KR,
                                                     "not transposed or (n1 == 3 and n2 == 2)"],
                "meth", [0, 1], fixed=dict(nvars=1, idim=False), timeout=300,
                bounds=_B1 + "no internal dimension; also with the variable stored transposed (b, a) relative to "
                                    "the coordinate declaration (3x2); meth 0 isnull 1 isfinite")
    + [make_cond(_G, "find_names", body_find, "n1:int bn:int meth:int " + " ".join("k%d:int" % i for i in range(4)),
                 ["1 <= n1 <= 2 and 1 <= bn <= 3 and 0 <= meth <= 1", " and ".join("0 <= k%d <= 3" % i for i in range(4))],
                 fixed=dict(n2=2, nvars=1, idim=False, ign=0, transposed=False,
                            **{"k%d" % i: 0 for i in range(4, 18)}), timeout=300,
                 bounds="a (1-2) x second dimension (2) named 'tolerance', 'drop' or 'method' (option names of "
                        "Dataset.sel): dimension names are data, every null pattern")]
    + [make_cond(_G, "find_subdims", body_find, "n1:int n2:int meth:int " + " ".join("k%d:int" % i for i in range(6)),
                 ["1 <= n1 <= 2 and 1 <= n2 <= 2 and 0 <= meth <= 1", " and ".join("0 <= k%d <= 3" % i for i in range(6))],
                 fixed=dict(nvars=1, idim=False, ign=0, transposed=False, bn=0, zvar=True,
                            **{"k%d" % i: 0 for i in range(6, 18)}), timeout=300,
                 bounds="x(a, b) together with a variable z(a) spanning only one of the parameter dimensions, every "
                        "null pattern: a location is missing only if x there AND z at its a are null")]
    + split_conds(_G, "find_ignored", body_find, _SIGF, ["1 <= n1 <= 3 and 0 <= n2 <= 2 and 1 <= ign <= 2", _KR,
                                                         "not transposed"],
                  "meth", [0, 1], fixed=dict(nvars=1, idim=True), timeout=400,
                  bounds=_B1 + "internal dimension 'time' (2 positions) ignored via 'time' or {'time'}: partial nulls along t")
    + split_conds(_G, "find_over_t", body_find, _SIGF,
                  ["1 <= n1 <= 2 and 0 <= n2 <= 1 and (ign == 0 or ign == 3)", _KR, "not transposed"],
                  "meth", [0, 1], fixed=dict(nvars=1, idim=True), timeout=400,
                  bounds="a (1-2) x b (absent, 1) x t (2), t not ignored: locations include t")
    + split_conds(_G, "find_2var", body_find, "n1:int n2:int idim:bool ign:int " + _K,
                  ["1 <= n1 <= 2 and 0 <= n2 <= 2 and 0 <= ign <= 2", _KR, "idim == (ign != 0)"],
                  "meth", [0, 1], fixed=dict(nvars=2), timeout=400,
                  bounds="two variables x(a,b[,t]) and y(a,b) with independent null patterns, <= 4 locations, "
                         "t ignored when present")
    + [
        make_cond(_G, "requested", body_requested, "meth:int viacases:bool k0:int k1:int k2:int k3:int",
                  ["0 <= meth <= 1 and 0 <= k0 <= 3 and 0 <= k1 <= 3 and 0 <= k2 <= 3 and 0 <= k3 <= 3"], timeout=300,
                  bounds="parse_into_cases over requested combos / cases x sub-grid on a 2x2 dataset, including "
                         "labels absent from the dataset, unsorted request order"),
        make_cond(_G, "loop", body_loop, "k0:int k1:int k2:int k3:int v:int",
                  ["0 <= k0 <= 1 and 0 <= k1 <= 1 and 0 <= k2 <= 1 and 0 <= k3 <= 1"], timeout=300,
                  bounds="find -> harvest_cases(exactly the reported cases) -> find on a 2x2 dataset with every NaN "
                         "pattern: nothing missing afterwards, only reported cases were run, existing values "
                         "untouched"),
    ]
)

ASSUMPTIONS = [
    "xarray / numpy replaced by MiniXR / MiniNP (sel / isnull / isfinite / all / to_array / item differentially "
    "checked incl. KeyError behaviour); float coordinate matching tolerance and string coordinates outside the claim",
    "cells are symbolic kinds {finite, NaN, inf}; <= 6 locations quick",
]
