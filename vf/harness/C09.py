"""C09 - a partial reap shows finished batches exactly and everything else as missing.

Real code executed: Crop.reap/reap_combos (allow_incomplete, clean_up, wait), all_nan_result,
Reaper._load (placeholder sizing), check_ready_to_reap, calc_clean_up_default_res,
nan_like_result, combo_runner_core, plus sow/grow to build the state.
"""
from ..common import Cond, concretize, cbool, done, HarnessError, make_cond, split_conds
from .cropkit import (CROP_FUNCS, SYM, REAL, grid, case_list, mkfn, n_batches_expected,
                      batching_kwargs, crop_dir)

import xyzpy.gen.cropping as cp
from xyzpy.gen.combo_runner import combo_runner
from xyzpy.utils import XYZError

CONFORMANCE = ("fakefs", "random", "minixr", "minipd")
FUNCS = CROP_FUNCS


def same_nested(x, y):
    if isinstance(x, tuple) and isinstance(y, tuple):
        return len(x) == len(y) and all(same_nested(p, q) for p, q in zip(x, y))
    return same(x, y)


def is_nan(x):
    return isinstance(x, float) and x != x


def same(o, r):
    try:
        import numpy as np

        if isinstance(o, np.ndarray) or isinstance(r, np.ndarray):
            return isinstance(o, np.ndarray) and o.shape == r.shape and bool((o == r).all())
    except Exception:  # noqa
        return False
    return o == r


def is_nan_array(x, shape):
    try:
        import numpy as np

        a = np.asarray(x)
        return a.shape == shape and bool(np.isnan(a.astype(float)).all())
    except Exception:
        return False


def result_of(kind, v):
    """the value the swept function returns for payload v, by result kind"""
    if kind == 0:
        return v                       # number
    if kind == 1:
        return (v, [v + 1, v + 2])     # tuple of scalar and a length-2 list
    if kind == 2:
        return v % 2 == 0              # bool
    if kind == 3:
        return "s%d" % v if isinstance(v, int) else "s"   # str
    import numpy as np

    return np.array([v, v + 1])        # a real integer ndarray (concrete payload)


def placeholder_ok(kind, x):
    if kind == 0:
        return is_nan(x)
    if kind == 1:
        return (isinstance(x, tuple) and len(x) == 2 and is_nan_array(x[0], ())
                and is_nan_array(x[1], (2,)))
    if kind == 4:
        return is_nan_array(x, (2,))
    return x is None


def body_partial(E, api, n, mode, b, kind, shuf, cu, f1, f2, f3, f4, f5, f6, base, j1, j2, j3, j4, j5):
    api = concretize(api, 0, 1)        # 0 grid, 1 cases x sub-grid
    n = concretize(n, 2, 7)
    mode = concretize(mode, 0, 2)
    N = 2 * n if api == 1 else n
    b = concretize(b, 1, N)
    kind = concretize(kind, 0, 4)
    cu = concretize(cu, 0, 2)          # clean_up None / False / True
    B = n_batches_expected(N, mode, b)
    if B < 2:
        return True                    # no non-empty proper subset exists
    fin = [k + 1 for k, f in enumerate([f1, f2, f3, f4, f5, f6, False][:B]) if cbool(f)]
    if not fin or len(fin) == B:
        return True
    js = [0, j1, j2, j3, j4, j5] + [0] * 12
    pay = mkfn(base if kind < 3 else 0)      # str / ndarray results need concrete payloads

    def fn(**kw):
        return result_of(kind, pay(**kw))

    with E(pools=[js[:N]]) as env:
        shuffle = False
        if cbool(shuf):
            shuffle = env.seed_for(js[:N], N)
        crop = cp.Crop(fn=fn, name="t", parent_dir=env.parent, **batching_kwargs(mode, b))
        if api == 0:
            combos, cases = grid(n), None
        else:
            combos, cases = {"b": [20, 21]}, [{"a": 10 + i} for i in range(n)]
        crop.sow_combos(combos, cases=cases, shuffle=shuffle, verbosity=0)
        if crop.num_batches != B:
            raise HarnessError("batch count")
        # independent map setting -> batch, from the sown files
        where = []
        for i in range(1, B + 1):
            for kw in env.read_obj(crop_dir(env) + "/batches/xyz-batch-%d.jbdmp" % i):
                where.append((kw, i))
        for i in fin:
            cp.grow(i, crop=crop, verbosity=0)

        # refused without allow_incomplete, crop untouched
        snap = env.snapshot(crop_dir(env))
        try:
            crop.reap()
            return False
        except XYZError:
            pass
        if not env.same_snapshot(snap, env.snapshot(crop_dir(env))):
            return False

        clean_up = [None, False, True][cu]
        out = crop.reap(allow_incomplete=True, clean_up=clean_up)

        # expected value per grid position
        ref = combo_runner(fn, combos, cases=cases, verbosity=0)
        if api == 0:
            names = sorted(combos)
            axes = [combos[a] for a in names]
        else:
            names = ["a", "b"]
            axes = [[10 + i for i in range(n)], [20, 21]]

        def walk(o, r, idx):
            if len(idx) == len(axes):
                kw = dict(zip(names, [axes[d][i] for d, i in enumerate(idx)]))
                batch = None
                for k2, i2 in where:
                    if all(k2[a] == kw[a] for a in names):
                        batch = i2
                if batch is None:
                    raise HarnessError("setting not sown")
                if batch in fin:
                    return same(o, r)
                return placeholder_ok(kind, o)
            if not isinstance(o, tuple) or len(o) != len(axes[len(idx)]):
                return False
            return all(walk(o[i], r[i], idx + (i,)) for i in range(len(o)))

        if not walk(out, ref, ()):
            return False
        if cu == 2:
            return not env.exists(crop_dir(env))
        # default / False: nothing deleted, growing can continue, later full reap exact
        if not env.same_snapshot(snap, env.snapshot(crop_dir(env))):
            return False
        crop = cp.Crop(name="t", parent_dir=env.parent)
        crop.grow_missing()
        full = crop.reap()
        return same_nested(full, ref) and not env.exists(crop_dir(env))


def RSYM(**kw):
    from ..env import Env

    kw.setdefault("fs", "obj")
    kw.setdefault("xr", True)
    kw.setdefault("pd", True)
    return Env("sym", **kw)


def body_runner_route(E, kind, which, to_df, base, sampler=False):
    """partial reap through a Runner (Dataset / DataFrame form), incl. bool and str results; sampler: through a
    Sampler crop (three drawn samples in two batches): one row per sown sample, unfinished ones missing"""
    from .xrkit import rows_of
    from xyzpy.gen.farming import Runner, Sampler

    kind = concretize(kind, 0, 3)
    which = concretize(which, 1, 2)      # the batch that IS finished
    E2 = RSYM if E is SYM else E
    pay = mkfn(base if kind < 3 else 0)

    def fn(a):
        return result_of(kind if kind != 1 else 0, pay(a=a))

    with E2() as env:
        r = Runner(fn, "x")
        if cbool(sampler):
            from .C15 import install_choice

            install_choice(env, [0, 1, 2, 0, 1, 2])
            s_ = Sampler(r, data_name=env.parent + "/smp.pkl", default_combos={"a": [10, 11, 12]})
            crop = s_.Crop(name="t", parent_dir=env.parent, batchsize=2)
            crop.sow_samples(3, verbosity=0)
            cp.grow(which, crop=crop, verbosity=0)
            rows = rows_of(env, crop.reap(allow_incomplete=True))
            if len(rows) != 3:
                return False                       # one row per sown sample, finished or not
            done_rows = {1: [0, 1], 2: [2]}[which]
            for i, row in enumerate(rows):
                if i in done_rows:
                    if row["x"] != fn(row["a"]):
                        return False
                elif not (row["x"] is None or is_nan(row["x"])):
                    return False
            return env.exists(crop_dir(env))
        crop = r.Crop(name="t", parent_dir=env.parent, batchsize=2)
        crop.sow_combos({"a": [10, 11, 12]}, verbosity=0)
        cp.grow(which, crop=crop, verbosity=0)
        fin = {1: [10, 11], 2: [12]}[which]
        if cbool(to_df):
            out = crop.reap_runner(r, allow_incomplete=True, to_df=True)
            rows = rows_of(env, out)
            if len(rows) != 3:
                return False
            for row in rows:
                if row["a"] in fin:
                    if row["x"] != fn(row["a"]):
                        return False
                elif not (row["x"] is None or is_nan(row["x"])):
                    return False
        else:
            ds = crop.reap(allow_incomplete=True)
            for a in (10, 11, 12):
                if env.mode == "sym":
                    got = ds._vars["x"].cells[(a,)]
                else:
                    got = ds["x"].sel(a=a).values.item()
                if a in fin:
                    if got != fn(a):
                        return False
                elif not (got is None or is_nan(got)):
                    return False
        return env.exists(crop_dir(env))          # default clean_up keeps the incomplete crop


BODIES = {}
_G = globals()
_SIG = ("n:int mode:int b:int kind:int shuf:bool cu:int f1:bool f2:bool f3:bool f4:bool f5:bool f6:bool base:int "
        "j1:int j2:int j3:int j4:int j5:int")
_NOJ = "j1 == 0 and j2 == 0 and j3 == 0 and j4 == 0 and j5 == 0"
_J = "0 <= j1 <= 1 and 0 <= j2 <= 2 and 0 <= j3 <= 3 and j4 == 0 and j5 == 0"

CONDS = (
    # all subsets x all (N, batching) with and without remainder, number results
    [make_cond(_G, "subsets_n%d" % n, body_partial, _SIG.replace("n:int ", ""),
               ["1 <= mode <= 2 and 1 <= b <= %d and kind == 0 and not shuf and cu == 0" % n, _NOJ],
               fixed=dict(api=0, n=n), timeout=400, tiers=("quick",) if n <= 5 else ("thorough",),
               bounds="grid of N=%d settings, batchsize/num_batches 1..N (with and without remainder), every "
                      "non-empty proper subset of finished batches (B<=%d), number results, default clean_up" % (n, min(n, 6)))
     for n in (2, 3, 4, 5, 6, 7)]
    + [make_cond(_G, "kinds", body_partial, _SIG,
                 ["3 <= n <= 4 and 1 <= mode <= 2 and 2 <= b <= 3 and 0 <= kind <= 4 and not shuf and 0 <= cu <= 2",
                  "not f4 and not f5 and not f6", _NOJ], fixed=dict(api=0), timeout=400,
                 bounds="N in 3..4, batch parameter 2..3, result kinds number / (scalar, list) tuple / bool / str / int ndarray, "
                        "clean_up None/False/True, all subsets")]
    + [make_cond(_G, "runner_route", body_runner_route, "kind:int which:int to_df:bool base:int sampler:bool",
                 ["(kind == 0 or kind == 2 or kind == 3) and 1 <= which <= 2", "not to_df or kind != 3",
                  "not sampler or (not to_df and kind != 3)"], timeout=300,
                 bounds="partial reap of a Runner crop (2 batches, either one finished) to a Dataset and to a "
                        "DataFrame, number / bool / str results: finished points exact, others missing, crop kept")]
    + [make_cond(_G, "shuffled", body_partial, _SIG,
                 ["n == 4 and 1 <= mode <= 2 and 2 <= b <= 3 and kind == 0 and shuf and cu == 0",
                  "not f4 and not f5 and not f6", _J], fixed=dict(api=0), timeout=600,
                 bounds="N=4 grid sown with a shuffle seed (every permutation), batch parameter 2..3, all subsets")]
    + [make_cond(_G, "cases_subgrid", body_partial, _SIG,
                 ["2 <= n <= 3 and 1 <= mode <= 2 and 1 <= b <= 2 * n and kind == 0 and not shuf and cu == 0",
                  "not f6", _NOJ], fixed=dict(api=1), timeout=600,
                 bounds="cases x sub-grid with N=2n in {4, 6}, batchsize/num_batches 1..N, all subsets (B<=5)")]
)

ASSUMPTIONS = [
    "file system replaced by FakeFS in object mode; pickling by an identity stub; `random` by NDRandom",
    "Dataset / DataFrame reaping forms and Dataset-valued results are checked under C06 (MiniXR), not here",
    "B=7 only for N=7 (thorough)",
]


def classify(cond, args, detail):
    return None
