"""C12 - a crop is deleted only after its data is safely delivered.

Real code executed: Crop.reap, reap_combos, reap_combos_to_ds, reap_runner, reap_harvest,
reap_samples, calc_clean_up_default_res, check_ready_to_reap, delete_all, Reaper.
"""
from ..common import Cond, concretize, cbool, done, HarnessError, make_cond, split_conds
from ..env import WaitTimeout, Env
from .cropkit import CROP_FUNCS, SYM, REAL, grid, mkfn, crop_dir

import xyzpy.gen.cropping as cp
from xyzpy.gen.combo_runner import combo_runner
from xyzpy.utils import XYZError

FUNCS = CROP_FUNCS


def is_nan(x):
    return isinstance(x, float) and x != x


def body_raw(E, cu, ai, wait, stage, which, base):
    """Real mode (replay): which result file the library looks at first depends on the directory order of the real
    disk, which is not the model's sorted order; for the unreadable-file stages the replay therefore asks the same
    question for the mirrored batch as well and fails if either fails."""
    if E is REAL and concretize(stage, 0, 4) in (2, 4):
        w = concretize(which, 1, 2)
        return _raw(E, cu, ai, wait, stage, w, base) and _raw(E, cu, ai, wait, stage, 3 - w, base)
    return _raw(E, cu, ai, wait, stage, which, base)


def _raw(E, cu, ai, wait, stage, which, base):
    cu = concretize(cu, 0, 2)              # clean_up None / True / False
    stage = concretize(stage, 0, 4)        # 0 none, 1 a result missing, 2 a result cut short, 3 a result over-long,
    #                                        4 a result file of zero bytes
    which = concretize(which, 1, 2)        # which batch is affected
    ai, wait = cbool(ai), cbool(wait)
    clean_up = [None, True, False][cu]
    eff_clean = (not ai) if clean_up is None else clean_up
    fn = mkfn(base)
    with E() as env:
        # a second crop in the same directory whose name begins with this crop's name, grown and not reaped:
        # whatever happens to crop "t", nothing of crop "t2" may be touched, and it still reaps exactly
        fn2 = mkfn(base + 7)
        sib = cp.Crop(fn=fn2, name="t2", parent_dir=env.parent, batchsize=2)
        sib.sow_combos(grid(3), verbosity=0)
        sib.grow_missing()
        sib_dir = crop_dir(env, "t2")
        sib_snap = env.snapshot(sib_dir)

        def core():
            clock = env.install_clock(cp, limit=3)
            ref = combo_runner(fn, grid(3), verbosity=0)
            crop = cp.Crop(fn=fn, name="t", parent_dir=env.parent, batchsize=2)
            crop.sow_combos(grid(3), verbosity=0)
            for i in (1, 2):
                if not (stage == 1 and i == which):
                    cp.grow(i, crop=crop, verbosity=0)
            rfile = crop_dir(env) + "/results/xyz-result-%d.jbdmp" % which
            if stage == 2:
                env.make_unreadable(rfile)
            if stage == 4:
                env.make_unreadable(rfile, kind="empty")
            if stage == 3:
                env.write_obj(rfile, tuple(env.read_obj(rfile)) + (0,))     # the kind of dump check_bad repairs
            snap = env.snapshot(crop_dir(env))
            raised = None
            out = None
            try:
                out = crop.reap(clean_up=clean_up, allow_incomplete=ai, wait=wait)
            except WaitTimeout:
                raised = "wait"
            except XYZError:
                raised = "xyz"
            except Exception:  # noqa: unreadable result (EOFError / UnpicklingError / ...)
                raised = "other"

            if stage == 0:
                if raised or out != ref:
                    return False
                return env.exists(crop_dir(env)) == (not eff_clean) and (
                    eff_clean or env.same_snapshot(snap, env.snapshot(crop_dir(env))))

            if stage == 1:
                if wait:
                    ok = raised == "wait"          # keeps polling; never a wrong answer
                elif ai:
                    if raised:
                        return False
                    # finished batch exact, the other missing
                    flat = list(out)
                    sizes = {1: [0, 1], 2: [2]}
                    for i in (1, 2):
                        for pos in sizes[i]:
                            if i == which:
                                if not is_nan(flat[pos]):
                                    return False
                            elif flat[pos] != ref[pos]:
                                return False
                    if eff_clean:
                        return not env.exists(crop_dir(env))
                    ok = True
                else:
                    ok = raised == "xyz"
                # crop intact, fix the cause, reap again: exact
                if not env.same_snapshot(snap, env.snapshot(crop_dir(env))):
                    return False
                cp.Crop(name="t", parent_dir=env.parent).grow_missing()
                again = cp.Crop(name="t", parent_dir=env.parent).reap()
                return ok and again == ref and not env.exists(crop_dir(env))

            # stage 2 / 3: unreadable or over-long result -> every reap raises and leaves everything in place
            if raised is None or raised == "wait":
                return False
            if not env.same_snapshot(snap, env.snapshot(crop_dir(env))):
                return False
            c2 = cp.Crop(name="t", parent_dir=env.parent)
            c2.check_bad()
            c2.grow_missing()
            again = c2.reap()
            return again == ref and not env.exists(crop_dir(env))

        if not core():
            return False
        if not env.exists(sib_dir) or not env.same_snapshot(sib_snap, env.snapshot(sib_dir)):
            return False
        return cp.Crop(name="t2", parent_dir=env.parent).reap() == combo_runner(fn2, grid(3), verbosity=0)


# ---------------------------------------------------------------------------
# farmer-attached crops: Runner / Harvester / Sampler x failure stage
def FSYM(**kw):
    kw.setdefault("fs", "obj")
    kw.setdefault("xr", True)
    kw.setdefault("pd", True)
    return Env("sym", **kw)


def body_farmer(E, kind, stage, cu, base, ai=False):
    """stage: 0 none, 1 wrong number of var_names, 2 merge conflict with existing data, 3 saving raises,
    4 an over-long result dump (surplus results are only noticed when the Reaper is closed)"""
    from .xrkit import fingerprint, same_fp, rows_of
    from .C15 import install_choice
    import xyzpy.gen.farming as fm
    import xyzpy.manage as mg
    from xyzpy.gen.farming import Runner, Harvester, Sampler

    kind = concretize(kind, 0, 2)
    stage = concretize(stage, 0, 5)
    cu = concretize(cu, 0, 2)
    clean_up = [None, True, False][cu]
    ai = cbool(ai)
    if stage == 5 and kind == 2:
        stage = 0            # as for stage 1
    multi = stage == 5       # the function returns three outputs and only two are named
    if stage != 0:
        ai = False
    eff_clean = (not ai) if clean_up is None else clean_up
    if stage == 2 and kind != 1:
        stage = 0
    if stage == 3 and kind == 0:
        stage = 0
    if stage == 1 and kind == 2:
        stage = 0            # the DataFrame form does not reject a wrong number of var_names
    E2 = FSYM if E is SYM else E
    with E2() as env:
        def fn(a, b=20):
            v = base + 100 * a + b
            return (v, v + 1, v + 2) if multi else v

        good = ("x", "y", "z") if multi else "x"
        names = ("x", "y") if stage in (1, 5) else good
        runner = Runner(fn, names)
        ref_runner = Runner(fn, good)
        combos = {"a": [10, 11, 12]}
        dname = env.parent + "/data.h5"
        sname = env.parent + "/smp.pkl"
        if kind == 0:
            farmer = runner
        elif kind == 1:
            farmer = Harvester(runner, data_name=dname)
            if stage == 2:
                # existing data that conflicts with what the crop will deliver (value + 1)
                Harvester(Runner(lambda a, b=20: fn(a, b) + 1, good), data_name=dname).harvest_combos(
                    {"a": [10]}, verbosity=0)
        else:
            farmer = Sampler(runner, data_name=sname, default_combos={"a": [10, 11], "b": [20]})
            install_choice(env, [0, 0, 1, 0, 0, 0, 0, 0])
        crop = farmer.Crop(name="fc", parent_dir=env.parent, batchsize=2)
        if kind == 2:
            crop.sow_samples(3, verbosity=0)
        else:
            crop.sow_combos(combos, verbosity=0)
        for i in (1, 2):
            cp.grow(i, crop=crop, verbosity=0)
        cdir = env.parent + "/.xyz-fc"
        if stage == 4:
            rfile = cdir + "/results/xyz-result-2.jbdmp"
            env.write_obj(rfile, tuple(env.read_obj(rfile)) + (0,))
        snap = env.snapshot(cdir)
        fails = [1]
        if stage == 3:
            real_save_ds, real_save_df = fm.save_ds, fm.save_df

            def failing(real):
                def save(*a, **k):
                    if fails:
                        fails.pop()
                        raise OSError("disk full")
                    return real(*a, **k)
                return save

            env._set(fm, "save_ds", failing(real_save_ds))
            env._set(fm, "save_df", failing(real_save_df))
        raised = False
        try:
            out = crop.reap(clean_up=clean_up, **({"allow_incomplete": True} if ai else {}))
        except Exception:  # noqa
            raised = True
        if stage == 0:
            if raised:
                return False
            if env.exists(cdir) != (not eff_clean):
                return False
            if not eff_clean and not env.same_snapshot(snap, env.snapshot(cdir)):
                return False
        else:
            # every failing reap leaves every crop file in place
            if not raised or not env.exists(cdir) or not env.same_snapshot(snap, env.snapshot(cdir)):
                return False
            # correct the cause, reap again
            if stage in (1, 5):
                r_ = crop.farmer if kind == 0 else crop.farmer.runner
                r_.var_names = good
                if stage == 5:
                    r_.var_dims = None          # re-derived for the corrected names
                out = crop.reap(clean_up=clean_up)
            elif stage == 2:
                out = crop.reap(clean_up=clean_up, overwrite=True)
            elif stage == 4:
                crop.check_bad()
                crop.grow_missing()
                out = crop.reap(clean_up=clean_up)
            else:
                out = crop.reap(clean_up=clean_up)
            if env.exists(cdir) != (not eff_clean):
                return False
        # the delivered data is exactly the direct run's
        if kind == 2:
            rows = rows_of(env, farmer.full_df)
            if len(rows) != 3:
                return False
            for r in rows:
                if r["out" if False else "x"] != base + 100 * r["a"] + r["b"]:
                    return False
            return rows_of(env, mg.load_df(sname)) == rows
        ref = ref_runner.run_combos(combos, verbosity=0)
        if not same_fp(fingerprint(env, out), fingerprint(env, ref)):
            return False
        if kind == 1:
            disk = mg.load_ds(dname)
            ok = same_fp(fingerprint(env, disk), fingerprint(env, ref))
            if env.mode == "real":
                disk.close()
            return ok
        return True


BODIES = {}
_G = globals()

CONDS = [
    make_cond(_G, "raw", body_raw, "cu:int ai:bool wait:bool stage:int which:int base:int",
              ["0 <= cu <= 2 and 0 <= stage <= 4 and 1 <= which <= 2"], timeout=300,
              bounds="raw crop of 2 batches (sizes 2 and 1); clean_up None/True/False x allow_incomplete x wait x "
                     "{no failure, result of batch 1|2 missing / unreadable / over-long}; followed by the "
                     "corrected retry (grow_missing / check_bad) and a second reap"),
]

CONDS += split_conds(
    _G, "farmer", body_farmer, "stage:int cu:int base:int ai:bool", ["0 <= stage <= 5 and 0 <= cu <= 2"], "kind", [0, 1, 2],
    timeout=600,
    bounds="farmer-attached crops (kind 0 Runner, 1 Harvester, 2 Sampler) of 2 batches; failure injected at: "
           "dataset construction (more var_names than outputs; stage 5: fewer var_names than outputs), harvester merge conflict, saving the merged data "
           "(save_ds / save_df raising once), an over-long result dump; clean_up None/True/False; then the "
           "corrected retry; without a failure also allow_incomplete=True on the complete crop (default clean_up then "
           "keeps the crop)")
CONFORMANCE = ("fakefs", "minixr", "minipd")

ASSUMPTIONS = [
    "file system replaced by FakeFS in object mode; an unreadable result is a marker on which read_from_disk "
    "raises EOFError",
    "time.sleep replaced by a Clock stub that raises a distinguished WaitTimeout after 3 polls, so that "
    "reap(wait=True) on an incomplete crop terminates; 'wait' therefore means 'keeps waiting' in the oracle",
    "failures inside shutil.rmtree itself belong to C10",
]
