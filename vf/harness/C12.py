"""C12 - a crop is deleted only after its data is safely delivered.

Real code executed: Crop.reap, reap_combos, reap_combos_to_ds, reap_runner, reap_harvest,
reap_samples, calc_clean_up_default_res, check_ready_to_reap, delete_all, Reaper.
"""
from ..common import Cond, concretize, cbool, done, HarnessError, make_cond, split_conds
from ..env import WaitTimeout
from .cropkit import CROP_FUNCS, SYM, REAL, grid, mkfn, crop_dir

import xyzpy.gen.cropping as cp
from xyzpy.gen.combo_runner import combo_runner
from xyzpy.utils import XYZError

CONFORMANCE = ("fakefs",)
FUNCS = CROP_FUNCS


def is_nan(x):
    return isinstance(x, float) and x != x


def body_raw(E, cu, ai, wait, stage, which, base):
    cu = concretize(cu, 0, 2)              # clean_up None / True / False
    stage = concretize(stage, 0, 2)        # 0 none, 1 a result missing, 2 a result unreadable
    which = concretize(which, 1, 2)        # which batch is affected
    ai, wait = cbool(ai), cbool(wait)
    clean_up = [None, True, False][cu]
    eff_clean = (not ai) if clean_up is None else clean_up
    fn = mkfn(base)
    with E() as env:
        clock = env.install_clock(cp, limit=3)
        ref = combo_runner(fn, grid(3), verbosity=0)
        crop = cp.Crop(fn=fn, name="t", parent_dir=env.parent, batchsize=2)
        crop.sow_combos(grid(3), verbosity=0)
        for i in (1, 2):
            if not (stage == 1 and i == which):
                cp.grow(i, crop=crop, verbosity=0)
        rfile = crop_dir(env) + "/results/xyz-result-%d.jbdmp" % which
        if stage == 2:
            env.make_unreadable(rfile)
        snap = env.snapshot(crop_dir(env))
        raised = None
        out = None
        try:
            out = crop.reap(clean_up=clean_up, allow_incomplete=ai, wait=wait)
        except WaitTimeout:
            raised = "wait"
        except XYZError:
            raised = "xyz"
        except Exception:  # noqa: unreadable result (EOFError / UnpicklingError / ...)
            raised = "other"

        if stage == 0:
            if raised or out != ref:
                return False
            return env.exists(crop_dir(env)) == (not eff_clean) and (
                eff_clean or env.same_snapshot(snap, env.snapshot(crop_dir(env))))

        if stage == 1:
            if wait:
                ok = raised == "wait"          # keeps polling; never a wrong answer
            elif ai:
                if raised:
                    return False
                # finished batch exact, the other missing
                flat = list(out)
                sizes = {1: [0, 1], 2: [2]}
                for i in (1, 2):
                    for pos in sizes[i]:
                        if i == which:
                            if not is_nan(flat[pos]):
                                return False
                        elif flat[pos] != ref[pos]:
                            return False
                if eff_clean:
                    return not env.exists(crop_dir(env))
                ok = True
            else:
                ok = raised == "xyz"
            # crop intact, fix the cause, reap again: exact
            if not env.same_snapshot(snap, env.snapshot(crop_dir(env))):
                return False
            cp.Crop(name="t", parent_dir=env.parent).grow_missing()
            again = cp.Crop(name="t", parent_dir=env.parent).reap()
            return ok and again == ref and not env.exists(crop_dir(env))

        # stage 2: unreadable result -> every reap raises and leaves everything in place
        if raised != "other":
            return False
        if not env.same_snapshot(snap, env.snapshot(crop_dir(env))):
            return False
        c2 = cp.Crop(name="t", parent_dir=env.parent)
        c2.check_bad()
        c2.grow_missing()
        again = c2.reap()
        return again == ref and not env.exists(crop_dir(env))


BODIES = {}
_G = globals()

CONDS = [
    make_cond(_G, "raw", body_raw, "cu:int ai:bool wait:bool stage:int which:int base:int",
              ["0 <= cu <= 2 and 0 <= stage <= 2 and 1 <= which <= 2"], timeout=300,
              bounds="raw crop of 2 batches (sizes 2 and 1); clean_up None/True/False x allow_incomplete x wait x "
                     "{no failure, result of batch 1|2 missing, result of batch 1|2 unreadable}; followed by the "
                     "corrected retry (grow_missing / check_bad) and a second reap"),
]

ASSUMPTIONS = [
    "file system replaced by FakeFS in object mode; an unreadable result is a marker on which read_from_disk "
    "raises EOFError",
    "time.sleep replaced by a Clock stub that raises a distinguished WaitTimeout after 3 polls, so that "
    "reap(wait=True) on an incomplete crop terminates; 'wait' therefore means 'keeps waiting' in the oracle",
    "failures inside shutil.rmtree itself belong to C10",
]
