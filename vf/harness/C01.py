"""C01 - a grid sweep evaluates every combination exactly once, in its own slot.

Real code executed: combo_runner, parse_combos, check_for_duplicates,
parse_constants, combo_runner_core, _unflatten, _submit, _get_result,
_run_linear_executor, _run_linear_sequential.
"""
from ..common import Cond, concretize, cbool, done, HarnessError, make_cond
from ..env import Env
from ..stubs import basic

import xyzpy.gen.combo_runner as cr
from xyzpy.gen.combo_runner import combo_runner
from xyzpy.utils import XYZError

CONFORMANCE = ("random",)
FUNCS = [
    cr.combo_runner, cr.combo_runner_core, cr._unflatten, cr._submit, cr._get_result,
    cr._run_linear_executor, cr._run_linear_sequential,
]
ARGN = ("c", "a", "b", "e", "d")      # deliberately NOT alphabetical: the order GIVEN is the nesting order


def product(lists):
    out = [()]
    for vals in lists:
        out = [p + (v,) for p in out for v in vals]
    return out


def index_into(out, idx):
    for i in idx:
        out = out[i]
    return out


def nested_shape_ok(out, shape):
    if not shape:
        return not isinstance(out, tuple) or True
    if not isinstance(out, tuple) or len(out) != shape[0]:
        return False
    return all(nested_shape_ok(o, shape[1:]) for o in out)


def run_and_check(E, shape, values, const, spelling, mode, arity, base, **opts):
    """Run the real combo_runner on the grid and check the C01 oracle.

    shape   tuple of sizes; values: per-argument lists of grid values
    mode    0 nested, 1 split, 2 flat;  arity: 0 scalar result, else tuple size
    """
    d = len(shape)
    args = ARGN[:d]
    log = []

    def fn(**kw):
        k = len(log)
        log.append(kw)
        if arity == 0:
            return base + 10 * k
        return tuple(base + 10 * k + v for v in range(arity))

    if spelling == 0:
        combos = {a: list(v) for a, v in zip(args, values)}
    elif spelling == 1:
        combos = tuple((a, tuple(v)) for a, v in zip(args, values))
    else:
        combos = [(a, list(v)) for a, v in zip(args, values)]
        if d == 1:
            combos = (args[0], list(values[0]))  # the single-tuple spelling

    constants = dict(const) if const else None
    out = combo_runner(
        fn, combos, constants=constants, split=(mode == 1), flat=(mode == 2), verbosity=0, **opts
    )

    want = product(values)
    if len(log) != len(want):
        return False
    # every combination exactly once, with the constants and nothing else
    # (lists and ==, never dicts/sets: hashing a symbolic value would realise it)
    keys = []
    for k, kw in enumerate(log):
        if len(kw) != d + len(const or ()):
            return False
        for ck, cv in (const or {}).items():
            if ck not in kw or kw[ck] != cv:
                return False
        for a in args:
            if a not in kw:
                return False
        key = tuple(kw[a] for a in args)
        for other in keys:
            if other == key:
                return False
        keys.append(key)

    def token_of_key(w):
        for k, key in enumerate(keys):
            if key == w:
                return k
        return None

    for w in want:
        if token_of_key(w) is None:
            return False

    idxs = product([range(n) for n in shape])
    for pos, (idx, w) in enumerate(zip(idxs, want)):
        k = token_of_key(w)
        if arity == 0:
            got = out[pos] if mode == 2 else index_into(out, idx)
            if got != base + 10 * k:
                return False
        else:
            for v in range(arity):
                if mode == 1:
                    got = index_into(out[v], idx)
                elif mode == 2:
                    got = out[pos][v]
                else:
                    got = index_into(out, idx)[v]
                if got != base + 10 * k + v:
                    return False
    # extents
    if mode == 2:
        if len(out) != len(want):
            return False
    elif mode == 1:
        if len(out) != arity or not all(nested_shape_ok(o, shape) for o in out):
            return False
    else:
        if not nested_shape_ok(out, shape):
            return False
    return True


# --------------------------------------------------------------------------
# (a) symbolic grid values, shapes, spellings, split/flat, constants
def body_values(E, d, n1, n2, n3, spelling, mode, arity, nconst, base, cv,
                v0, v1, v2, v3, v4, v5, v6, v7, v8):
    d = concretize(d, 1, 3)
    ns = [concretize(n1, 1, 3), concretize(n2, 1, 3), concretize(n3, 1, 3)][:d]
    spelling = concretize(spelling, 0, 2)
    mode = concretize(mode, 0, 2)
    arity = concretize(arity, 0, 2)
    nconst = concretize(nconst, 0, 2)
    if mode == 1 and arity == 0:
        arity = 2
    pool = [v0, v1, v2, v3, v4, v5, v6, v7, v8]
    values = [pool[3 * i:3 * i + n] for i, n in enumerate(ns)]
    const = {"k1": cv, "k2": cv + 1}
    const = {k: const[k] for k in list(const)[:nconst]}
    with E() as env:
        return run_and_check(env, tuple(ns), values, const, spelling, mode, arity, base)



# --------------------------------------------------------------------------
# (b) duplicate values must be rejected before anything runs
def body_dups(E, n, v0, v1, v2):
    n = concretize(n, 2, 3)
    vals = [v0, v1, v2][:n]
    dup = any(vals[i] == vals[j] for i in range(n) for j in range(i))
    dup = cbool(dup)
    log = []

    def fn(a, b):
        log.append((a, b))
        return 0

    with E():
        try:
            combo_runner(fn, {"b": [5], "a": vals}, verbosity=0)
            raised = False
        except XYZError:
            raised = True
    if dup:
        return raised and not log
    return (not raised) and len(log) == n


MIXED = [1, 1.0, True, 2, 2.0, 0, False, "1"]


def body_dups_mixed(E, i0, i1, i2):
    """equal values of different type (1, 1.0, True) are duplicates too"""
    vals = [MIXED[concretize(i, 0, 7)] for i in (i0, i1, i2)]
    dup = any(vals[i] == vals[j] for i in range(3) for j in range(i))
    log = []

    def fn(a):
        log.append(a)
        return 0

    with E():
        try:
            out = combo_runner(fn, {"a": vals}, verbosity=0)
            raised = False
        except XYZError:
            raised = True
    if dup:
        return raised and not log
    return (not raised) and len(log) == 3 and len(out) == 3


# --------------------------------------------------------------------------
# (c) shuffle: every permutation of N settings, seed True / int
SHUF_SHAPES = [(2,), (3,), (2, 2), (4,), (1, 3), (5,), (3, 2), (6,), (2, 3)]


def body_shuffle(E, shp, use_true, mode, base, j1, j2, j3, j4, j5):
    shp = concretize(shp, 0, len(SHUF_SHAPES) - 1)
    shape = SHUF_SHAPES[shp]
    n = 1
    for s in shape:
        n *= s
    js = [0, j1, j2, j3, j4, j5][:n]
    mode = concretize(mode, 0, 2)
    values = [[10 * (ai + 1) + i for i in range(s)] for ai, s in enumerate(shape)]
    with E(pools=[js]) as env:
        if cbool(use_true):
            shuffle = True
        else:
            shuffle = env.seed_for(js, n)
        if env.mode == "real" and shuffle is True:
            shuffle = env.seed_for(js, n)
        ok = run_and_check(env, shape, values, {}, 0, mode, 2 if mode == 1 else 0, base,
                           shuffle=shuffle)
        if env.mode == "sym":
            ok = ok and len(env.rnd.log) == 1
        return ok


# --------------------------------------------------------------------------
# (d) executors: three API flavours, every completion order; parallel/num_workers
def body_exec(E, flavour, n, mode, base, j1, j2, j3):
    flavour = concretize(flavour, 0, 4)
    n = concretize(n, 1, 4)
    mode = concretize(mode, 0, 2)
    js = [0, j1, j2, j3][:n]
    shape = (n,) if n != 4 else (2, 2)
    values = [[10 * (ai + 1) + i for i in range(s)] for ai, s in enumerate(shape)]
    with E() as env:
        opts = {}
        if flavour == 0:
            ex = basic.SubmitExecutor(js)
            opts["executor"] = ex
        elif flavour == 1:
            ex = basic.ApplyAsyncExecutor(js)
            opts["executor"] = ex
        elif flavour == 2:
            ex = basic.MPPoolExecutor(js)
            opts["executor"] = ex
        else:
            ex = basic.SubmitExecutor(js)
            asked = []

            def get_reusable_executor(max_workers=None, *a, **k):
                asked.append(max_workers)
                return ex

            env._set(cr, "get_reusable_executor", get_reusable_executor)
            if flavour == 3:
                opts["parallel"] = 3      # int => number of workers
            else:
                opts["num_workers"] = 2
        ok = run_and_check(env, shape, values, {"k": 1}, 0, mode, 2 if mode == 1 else 0, base,
                           **opts)
        ok = ok and ex.ran == n and not ex._pending
        if flavour == 3:
            ok = ok and asked == [3]
        if flavour == 4:
            ok = ok and asked == [2]
        return ok


def body_exec_big(E, flavour, n, mode, base):
    """larger sweeps through an executor (size thresholds: chunking, bounded windows of pending tasks ...);
    tasks complete in submission order"""
    flavour = concretize(flavour, 0, 2)
    n = concretize(n, 30, 70)
    mode = concretize(mode, 0, 2)
    shape = (n,) if n % 2 else (n // 2, 2)
    values = [[10 * (ai + 1) + i for i in range(s)] for ai, s in enumerate(shape)]
    with E() as env:
        ex = [basic.SubmitExecutor, basic.ApplyAsyncExecutor, basic.MPPoolExecutor][flavour](None)
        ok = run_and_check(env, shape, values, {"k": 1}, 0, mode, 2 if mode == 1 else 0, base, executor=ex)
        return ok and ex.ran == n and not ex._pending


def body_two_sweeps(E, base, order):
    """two sweeps in one process over grids whose values are equal (==, same hash) but of different type
    (1 / 1.0, 0 / False): each sweep calls the function with its own values and files its own results"""
    grids = [{"a": [1, 2], "b": [0, 1, 3]}, {"a": [1.0, 2.0], "b": [False, True, 3.0]}]
    if cbool(order):
        grids.reverse()
    with E():
        for g in grids:
            log = []

            def fn(a, b):
                log.append((type(a).__name__, type(b).__name__))
                return (base, type(a).__name__, a, type(b).__name__, b)

            out = combo_runner(fn, g, verbosity=0)
            want = [(type(a).__name__, type(b).__name__) for a in g["a"] for b in g["b"]]
            if log != want:
                return False
            for i, a in enumerate(g["a"]):
                for j, b in enumerate(g["b"]):
                    if out[i][j] != (base, type(a).__name__, a, type(b).__name__, b):
                        return False
        return True


def body_badexec(E):
    """an executor without submit/apply_async is rejected with TypeError"""
    with E():
        try:
            combo_runner(lambda a: a, {"a": [1]}, executor=object(), verbosity=0)
        except TypeError:
            return True
    return False


# --------------------------------------------------------------------------
# (e) string-valued grid
def body_str(E, n, s0, s1, s2, base):
    n = concretize(n, 1, 3)
    vals = [s0, s1, s2][:n]
    with E() as env:
        return run_and_check(env, (n, 2), [vals, [1, 2]], {}, 0, 0, 0, base)


def SYM(**kw):
    return Env("sym", **kw)


def REAL(**kw):
    return Env("real", **kw)


BODIES = {}
_G = globals()
_V9 = "v0:int v1:int v2:int v3:int v4:int v5:int v6:int v7:int v8:int"
_DISTINCT = ["v0 != v1 and v0 != v2 and v1 != v2", "v3 != v4 and v3 != v5 and v4 != v5",
             "v6 != v7 and v6 != v8 and v7 != v8"]
_J = ["0 <= j1 <= 1 and 0 <= j2 <= 2 and 0 <= j3 <= 3 and 0 <= j4 <= 4 and 0 <= j5 <= 5"]

CONDS = [
    make_cond(_G, "values_shape", body_values,
              "d:int n1:int n2:int mode:int base:int cv:int " + _V9,
              ["1 <= d <= 2 and 1 <= n1 <= 3 and 1 <= n2 <= 3 and 0 <= mode <= 2"] + _DISTINCT,
              fixed=dict(n3=1, spelling=0, arity=0, nconst=1), timeout=150,
              bounds="1-2 args, 1-3 values each (12 shapes), symbolic distinct int grid values, "
                     "nested/split/flat, one constant with symbolic value, symbolic payload base"),
    make_cond(_G, "values_opts", body_values,
              "spelling:int mode:int arity:int nconst:int base:int cv:int " + _V9,
              ["0 <= spelling <= 2 and 0 <= mode <= 2 and 0 <= arity <= 2 and 0 <= nconst <= 2"] + _DISTINCT,
              fixed=dict(d=2, n1=2, n2=2, n3=1), timeout=150,
              bounds="2x2 grid of symbolic values; dict/tuple/list spellings x nested/split/flat x result "
                     "arity 0-2 x 0-2 constants"),
    make_cond(_G, "values_3d", body_values,
              "n1:int n2:int n3:int mode:int base:int cv:int " + _V9,
              ["1 <= n1 <= 2 and 1 <= n2 <= 3 and 1 <= n3 <= 2 and 0 <= mode <= 2"] + _DISTINCT,
              fixed=dict(d=3, spelling=0, arity=0, nconst=1), timeout=200,
              bounds="3 args, shapes up to 2x3x2, symbolic int grid values, nested/split/flat"),
    make_cond(_G, "single_tuple", body_values,
              "n1:int mode:int base:int cv:int " + _V9,
              ["1 <= n1 <= 3 and 0 <= mode <= 2"] + _DISTINCT,
              fixed=dict(d=1, n2=1, n3=1, spelling=2, arity=0, nconst=0), timeout=60,
              bounds="single ('a', values) tuple spelling, 1-3 symbolic values"),
    make_cond(_G, "dups", body_dups, "n:int v0:int v1:int v2:int",
              ["2 <= n <= 3 and 0 <= v0 <= 2 and 0 <= v1 <= 2 and 0 <= v2 <= 2"], timeout=60,
              bounds="1 swept arg with 2-3 values in 0..2 (all equal/unequal patterns): duplicates => XYZError "
                     "before any call"),
    make_cond(_G, "dups_mixed", body_dups_mixed, "i0:int i1:int i2:int",
              ["0 <= i0 <= 7 and 0 <= i1 <= 7 and 0 <= i2 <= 7"], timeout=120,
              bounds="3 values drawn from {1, 1.0, True, 2, 2.0, 0, False, '1'}: any two == equal values (also of "
                     "different type) => XYZError before any call"),
    make_cond(_G, "shuffle_small", body_shuffle, "shp:int use_true:bool mode:int base:int j1:int j2:int j3:int j4:int j5:int",
              ["0 <= shp <= 4 and 0 <= mode <= 2 and j5 == 0"] + _J, timeout=150,
              bounds="every permutation of N<=4 settings over shapes (2),(3),(2,2),(4),(1,3); shuffle=True|int; "
                     "nested/split/flat"),
    make_cond(_G, "shuffle5_true", body_shuffle, "mode:int base:int j1:int j2:int j3:int j4:int j5:int",
              ["0 <= mode <= 2 and j5 == 0"] + _J, fixed=dict(shp=5, use_true=True), timeout=150,
              bounds="all 120 permutations of N=5 settings, shuffle=True, nested/split/flat"),
    make_cond(_G, "shuffle5_seed", body_shuffle, "mode:int base:int j1:int j2:int j3:int j4:int j5:int",
              ["0 <= mode <= 2 and j5 == 0"] + _J, fixed=dict(shp=5, use_true=False), timeout=150,
              bounds="all 120 permutations of N=5 settings, shuffle=<int seed>, nested/split/flat"),
    make_cond(_G, "exec_pools", body_exec, "flavour:int n:int mode:int base:int j1:int j2:int j3:int",
              ["0 <= flavour <= 2 and 1 <= n <= 4 and 0 <= mode <= 2",
               "0 <= j1 <= 1 and 0 <= j2 <= 2 and 0 <= j3 <= 3"], timeout=150,
              bounds="executor= submit-style / apply_async(*args)-style / multiprocessing.pool.Pool subclass; "
                     "N<=4 tasks, every completion order; nested/split/flat"),
    make_cond(_G, "two_sweeps", body_two_sweeps, "base:int order:bool", [], timeout=120,
              bounds="two successive sweeps in one process over 2x3 grids with equal-but-differently-typed values "
                     "(int / float / bool), either order: each call receives the values of its own grid (state kept "
                     "between sweeps - caches keyed by equality - shows only in the plain run of an instance: "
                     "CrossHair by-passes functools.lru_cache)"),
    make_cond(_G, "exec_big", body_exec_big, "flavour:int n:int mode:int base:int",
              ["0 <= flavour <= 2 and 0 <= mode <= 2", "n == 33 or n == 40 or n == 65"], timeout=300,
              bounds="33, 40 (20x2) and 65 tasks through each executor flavour, completion in submission order: "
                     "every result in its own slot (size thresholds of the collection loop)"),
    make_cond(_G, "exec_parallel", body_exec, "flavour:int n:int mode:int base:int j1:int j2:int j3:int",
              ["3 <= flavour <= 4 and 1 <= n <= 4 and 0 <= mode <= 2",
               "0 <= j1 <= 1 and 0 <= j2 <= 2 and 0 <= j3 <= 3"], timeout=150,
              bounds="parallel=<int> and num_workers=<int> routed to get_reusable_executor (stubbed); N<=4 tasks, "
                     "every completion order"),
    make_cond(_G, "str_values", body_str, "n:int s0:str s1:str s2:str base:int",
              ["1 <= n <= 3 and len(s0) <= 2 and len(s1) <= 2 and len(s2) <= 2",
               "s0 != s1 and s0 != s2 and s1 != s2"], timeout=300, tiers=("thorough",),
              bounds="symbolic str grid values (len<=2), n<=3, crossed with a 2-value int argument"),
] + [
    make_cond(_G, "shuffle6_%d" % k, body_shuffle, "shp:int mode:int base:int j1:int j2:int j3:int j4:int j5:int",
              ["6 <= shp <= 8 and 0 <= mode <= 1 and j5 == %d" % k] + _J, fixed=dict(use_true=False),
              timeout=400, tiers=("thorough",),
              bounds="all permutations of N=6 settings whose first swap index is %d; shapes (3,2),(6),(2,3)" % k)
    for k in range(6)
]

ASSUMPTIONS = [
    "tqdm progress bar replaced by a no-op (NoBar)",
    "`random` module global of combo_runner replaced by NDRandom (Fisher-Yates on solver-chosen indices; "
    "same (seed,len) => same permutation)",
    "worker pools replaced by NDExecutor stubs: each task runs once, after submission, in a solver-chosen order; "
    "real process pools, argument pickling and executor=='ray' are outside the claim",
    "grid sizes beyond the stated bounds and float-valued grid values are outside the claim",
]
