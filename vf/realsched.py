"""Replay of StepFS counterexamples on the REAL file system.

RealSteps wraps the real `open` / `pickle.dump` / `os.replace` / `os.remove` / `shutil.rmtree`
used by xyzpy.gen.cropping with the same step numbering as StepFS:
  * crash replay: the (c+1)-th mutation step raises Crash, leaving on the real disk exactly what
    c steps wrote (pickle.dump writes its bytes in K flushed chunks);
  * schedule replay: writers run in real threads and block before every mutation step; the
    reader (main thread) releases, immediately before each of its own observations of a path,
    as many of that path's pending changes as the counterexample's schedule says.
"""
import os
import pickle
import shutil
import threading

from .stubs.stepfs import Crash


class RealSteps:
    def __init__(self, K=2):
        self.K = K
        self.budget = None
        self.dead = False
        self.steps = 0
        self.lock = threading.Condition()
        self.writers = {}          # thread ident -> state dict
        self.deltas = None
        self.force_progress = False
        self.reader = threading.get_ident()
        self.rmtree_reverse = False
        self.buffered = False
        self.global_order = None   # writers of the SAME file: the global order of their steps (writer indices)
        self._gptr = 0

    # ---------------------------------------------------------------- stepping
    def _step(self, path):
        me = threading.get_ident()
        if me in self.writers:
            w = self.writers[me]
            with self.lock:
                w["pending"] = path
                self.lock.notify_all()
                while w["permits"] <= 0:
                    self.lock.wait()
                w["permits"] -= 1
                w["pending"] = None
                w["done_paths"].append(path)
            return
        if self.dead:
            raise Crash()
        if self.budget is not None:
            if self.budget <= 0:
                self.dead = True
                raise Crash()
            self.budget -= 1
        self.steps += 1

    # ---------------------------------------------------------------- wrapped primitives
    def open(self, p, mode="r"):
        if "w" in mode:
            self._step(p)                         # create / truncate
            return _WFile(self, p, open(p, mode))
        self._observe(p)
        return open(p, mode)

    def dump(self, obj, f, *a, **k):
        data = pickle.dumps(obj)
        if self.buffered:
            f.pending = data           # reaches the file when the handle is closed
            return
        self._write_chunks(f, data)

    def _write_chunks(self, f, data):
        n = len(data)
        cuts = [n * i // self.K for i in range(self.K + 1)]
        for i in range(self.K):
            self._step(f.path)
            f.raw.write(data[cuts[i]:cuts[i + 1]])
            f.raw.flush()

    def replace(self, a, b):
        self._step(b)
        os.replace(a, b)

    def remove(self, p):
        self._step(p)
        os.remove(p)

    def rmtree(self, d):
        entries = []
        for root, _, files in os.walk(d):
            for fn in files:
                entries.append(os.path.join(root, fn))
        for q in sorted(entries, reverse=self.rmtree_reverse):
            self._step(q)
            os.remove(q)
        self._step(d)
        shutil.rmtree(d)

    # ---------------------------------------------------------------- reader side (schedule replay)
    def _observe(self, path):
        if self.deltas is None or threading.get_ident() != self.reader:
            return
        owners = [w for w in self.writers.values() if not w["finished"] and self._touches(w, path)]
        if self.global_order is not None and owners:
            lo = 1 if self.force_progress else 0
            d = self.deltas.pop(0) if self.deltas else 10 ** 6
            self._advance_global(path, max(int(d), lo))
            self.force_progress = False
            return
        for w in owners:
            lo = 1 if self.force_progress else 0
            d = self.deltas.pop(0) if self.deltas else 10 ** 6
            d = max(int(d), lo)
            self._advance(w, path, d)
        if owners:
            self.force_progress = False

    def _touches(self, w, path):
        return w["paths"] is None or path in w["paths"] or any(path.startswith(q + ".") for q in w["paths"])

    @staticmethod
    def _family_count(w, path):
        """steps of writer w on `path` or on a sibling temporary name of it (<path>.<anything>): with a
        write-to-temporary-then-rename protocol the states in which only the temporary file exists are reader-visible
        too (glob / listdir), so they must be schedulable"""
        base = path
        for q in (w["paths"] or []):
            if path.startswith(q + "."):
                base = q
        return sum(1 for p_ in w["done_paths"] if p_ == base or p_.startswith(base + "."))

    def _advance(self, w, path, d):
        """let writer w run until it has made d more changes to `path` or its temporary siblings (or has finished)"""
        target = self._family_count(w, path) + d
        with self.lock:
            while not w["finished"] and self._family_count(w, path) < target:
                if w["pending"] is not None and w["permits"] == 0:
                    w["permits"] += 1
                    self.lock.notify_all()
                self.lock.wait(timeout=0.05)

    def _advance_steps(self, w, n):
        """let writer w perform n more steps (whatever path they touch)"""
        target = len(w["done_paths"]) + n
        with self.lock:
            while not w["finished"] and len(w["done_paths"]) < target:
                if w["pending"] is not None and w["permits"] == 0:
                    w["permits"] += 1
                    self.lock.notify_all()
                self.lock.wait(timeout=0.05)

    def _advance_global(self, path, d):
        """run the writers in the prescribed global step order until `path` changed d more times"""
        ws = sorted(self.writers.values(), key=lambda w: w["index"])

        def changes():
            return sum(w["done_paths"].count(path) for w in ws)

        target = changes() + d
        while changes() < target and any(not w["finished"] for w in ws):
            while self._gptr < len(self.global_order) and ws[self.global_order[self._gptr]]["finished"]:
                self._gptr += 1
            if self._gptr < len(self.global_order):
                w = ws[self.global_order[self._gptr]]
                self._gptr += 1
            else:
                w = next(x for x in ws if not x["finished"])
            before = len(w["done_paths"])
            with self.lock:
                # wait until the writer is parked at its next step (or finished), then let it do one step
                while not w["finished"] and w["pending"] is None:
                    self.lock.wait(timeout=0.05)
                if w["finished"]:
                    continue
                w["permits"] += 1
                self.lock.notify_all()
                while not w["finished"] and len(w["done_paths"]) == before:
                    self.lock.wait(timeout=0.05)

    def finish_all(self):
        for w in self.writers.values():
            with self.lock:
                w["permits"] = 10 ** 9
                self.lock.notify_all()
        for w in self.writers.values():
            w["thread"].join()

    def start_writer(self, target, paths=None):
        w = {"permits": 0, "pending": None, "done_paths": [], "finished": False, "paths": paths, "error": None,
             "index": getattr(self, "_nstarted", 0)}
        self._nstarted = getattr(self, "_nstarted", 0) + 1
        ready = threading.Event()

        def run():
            self.writers[threading.get_ident()] = w
            ready.set()
            try:
                target()
            except BaseException as e:  # noqa
                w["error"] = e
            finally:
                with self.lock:
                    w["finished"] = True
                    self.lock.notify_all()

        t = threading.Thread(target=run, daemon=True)
        w["thread"] = t
        t.start()
        ready.wait()
        return w

    # ---------------------------------------------------------------- installation
    def install(self, env, cp):
        rs = self

        class OSProxy:
            def __getattr__(self, name):
                return getattr(os, name)

            def replace(self, a, b):
                rs.replace(a, b)

            rename = replace

            def remove(self, p):
                rs.remove(p)

            unlink = remove

            def getpid(self):
                return os.getpid() + getattr(rs, "pid_offset", 0)

            def makedirs(self, p, exist_ok=False):
                if not os.path.isdir(p):
                    rs._step(p)            # StepFS counts a creating makedirs as one step
                os.makedirs(p, exist_ok=exist_ok)

            def listdir(self, d):
                # a directory listing observes every file of every writer in that directory
                if rs.deltas is not None and threading.get_ident() == rs.reader:
                    for w in sorted(rs.writers.values(), key=lambda x: x["index"]):
                        if w["finished"]:
                            continue
                        n = rs.deltas.pop(0) if rs.deltas else 10 ** 6
                        n = max(int(n), 1 if rs.force_progress else 0)
                        rs._advance_steps(w, n)
                    rs.force_progress = False
                return os.listdir(d)

            @property
            def path(self):
                return PathProxy()

        class PathProxy:
            def __getattr__(self, name):
                return getattr(os.path, name)

            def exists(self, p):
                rs._observe(p)
                return os.path.exists(p)

            def isfile(self, p):
                rs._observe(p)
                return os.path.isfile(p)

        class GlobProxy:
            def glob(self, pat):
                import fnmatch
                import glob as g

                if rs.deltas is not None and threading.get_ident() == rs.reader:
                    cand = set()
                    for w in rs.writers.values():
                        for q in (w["paths"] or []):
                            if os.path.dirname(q) == os.path.dirname(pat) and (fnmatch.fnmatchcase(
                                    os.path.basename(q), os.path.basename(pat)) or pat.startswith(q + ".")):
                                cand.add(q)
                    for q in sorted(cand):
                        rs._observe(q)
                return g.glob(pat)

        class ShutilProxy:
            def __getattr__(self, name):
                return getattr(shutil, name)

            def rmtree(self, d):
                rs.rmtree(d)

        class PickleProxy:
            def __getattr__(self, name):
                return getattr(pickle, name)

            def dump(self, obj, f, *a, **k):
                rs.dump(obj, f, *a, **k)

            def load(self, f, *a, **k):
                return pickle.load(f, *a, **k)

        class ClockProxy:
            def sleep(self, t):
                if any(not w["finished"] for w in rs.writers.values()):
                    rs.force_progress = True
                else:
                    from .env import WaitTimeout

                    raise WaitTimeout()

        env._set(cp, "os", OSProxy())
        env._set(cp, "glob", GlobProxy())
        env._set(cp, "shutil", ShutilProxy())
        env._set(cp, "pickle", PickleProxy())
        env._set(cp, "open", self.open)
        env._set(cp, "time", ClockProxy())


def install_farming(rs, env, fm, mg):
    """coarse real-disk steps for the farming layer: remove / replace are one step each; a save is two
    steps (a kill after the first leaves a truncated file under the name being written)"""
    import xyzpy.manage as manage

    class OSProxy:
        def __getattr__(self, name):
            return getattr(os, name)

        def remove(self, p):
            rs._step(p)
            os.remove(p)

        unlink = remove

        def replace(self, a, b):
            rs._step(b)
            os.replace(a, b)

        rename = replace

    def wrap_save(real, namer):
        def save(obj, name, *a, **k):
            rs._step(name)
            real(obj, name, *a, **k)
            try:
                rs._step(name)
            except Crash:
                target = namer(name, *a, **k)
                size = os.path.getsize(target)
                with open(target, "r+b") as f:
                    f.truncate(size // 2)
                raise
        return save

    env._set(fm, "os", OSProxy())
    env._set(fm, "save_ds", wrap_save(fm.save_ds, lambda name, *a, **k: manage.auto_add_extension(
        name, k.get("engine", a[0] if a else "h5netcdf"))))
    env._set(fm, "save_df", wrap_save(fm.save_df, lambda name, *a, **k: name))


class _WFile:
    def __init__(self, rs, path, raw):
        self.rs, self.path, self.raw = rs, path, raw

    def __enter__(self):
        return self

    def __exit__(self, *a):
        pending = getattr(self, "pending", None)
        if pending is not None:
            self.pending = None
            try:
                self.rs._write_chunks(self, pending)
            finally:
                self.raw.close()
            return False
        self.raw.close()
        return False

    def write(self, b):
        return self.raw.write(b)
