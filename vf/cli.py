"""./check <property id> [--tier quick|thorough] | --replay <file>"""
import argparse
import importlib
import json
import os
import sys
import time

from . import common
from .common import EXIT_HARNESS, EXIT_OK, EXIT_VIOLATION

# property -> (kind, module)
REGISTRY = {
    "C01": ("A", "vf.harness.C01"),
    "C02": ("A", "vf.harness.C02"),
    "C03": ("A", "vf.harness.C03"),
    "C04": ("A", "vf.harness.C04"),
    "C05": ("A", "vf.harness.C05"),
    "C06": ("A", "vf.harness.C06"),
    "C07": ("A", "vf.harness.C07", "vf.engine_b.c07"),
    "C08": ("A", "vf.harness.C08"),
    "C09": ("A", "vf.harness.C09"),
    "C10": ("A", "vf.harness.C10"),
    "C11": ("A", "vf.harness.C11"),
    "C12": ("A", "vf.harness.C12"),
    "C13": ("A", "vf.harness.C13"),
    "C14": ("A", "vf.harness.C14"),
    "C15": ("A", "vf.harness.C15"),
    "C16": ("A", "vf.harness.C16"),
    "C19": ("A", "vf.harness.C19", "vf.engine_b.c19"),
    "C20": ("B", "vf.engine_b.c20"),
}

LEVEL = {}


def run_kernel(prop, kmodname, tier):
    """Engine B kernel attached to an Engine A property: (code, coverage extras, violations)"""
    import json as _json

    kmod = importlib.import_module(kmodname)
    code, cov, lines, fails, incon = kmod.run(tier)
    for ln in lines:
        print(ln)
    nviol = 0
    seen = set()
    for n, mode, (desc, req) in fails:
        if (n, mode, desc) in seen:
            continue
        seen.add((n, mode, desc))
        if req is None:
            print("HARNESS-ERROR property=%s kernel n=%s mode=%s: %s" % (prop, n, mode, desc))
            code = max(code, EXIT_HARNESS)
            continue
        broken, why = kmod.replay_fail(n, mode, req)
        if broken:
            nviol += 1
            os.makedirs(common.REPLAY_DIR, exist_ok=True)
            path = os.path.join(common.REPLAY_DIR, "%s-kernel-n%s-m%s.json" % (prop, n, mode))
            with open(path, "w") as f:
                _json.dump({"property": prop, "n": n, "mode": mode, "request": req, "obligation": desc,
                            "real": why}, f)
            if nviol <= 5:
                print("VIOLATION property=%s replay=%s" % (prop, path))
                print("  n=%s %s=%s: %s (%s)" % (n, {1: "batchsize", 2: "num_batches"}.get(mode, "-"), req, desc, why))
            code = max(code, EXIT_VIOLATION)
        else:
            print("HARNESS-ERROR property=%s kernel witness n=%s mode=%s req=%s (%s) does not reproduce on the "
                  "real code" % (prop, n, mode, req, desc))
            code = max(code, EXIT_HARNESS)
    if nviol:
        code = EXIT_VIOLATION       # a reproduced violation is reported as such
    for n, mode, what in incon[:5]:
        print("INCONCLUSIVE property=%s kernel n=%s mode=%s %s" % (prop, n, mode, what))
    print("  kernel: %s" % {k: v for k, v in cov.items() if k != "kernel_functions_encoded"})
    return code, cov, nviol


def run_A(prop, modname, tier, seed, kmodname=None):
    from . import engine_a

    t0 = time.time()
    mod = importlib.import_module(modname)
    nconf = 0
    which = getattr(mod, "CONFORMANCE", ())
    if which:
        from .stubs import conformance

        nconf, bad = conformance.run_all(which)
        if bad:
            print("HARNESS-ERROR property=%s stub conformance failed: %s" % (prop, bad))
            return EXIT_HARNESS
        print("  stub conformance: %d comparisons with the real libraries agree (%s)" % (nconf, ", ".join(which)))
    code, records, violations = engine_a.run_property(prop, modname, tier, seed)
    kcov = {}
    if kmodname:
        kcode, kcov, kviol = run_kernel(prop, kmodname, tier)
        code = max(code, kcode)
        violations += kviol
        if violations:
            code = EXIT_VIOLATION
    wall = time.time() - t0
    paths = sum(r["paths"] for r in records.values())
    reached = sum(r.get("reached", 0) for r in records.values())
    confirmed = [n for n, r in records.items() if r["verdict"] == "confirmed"]
    samples = []
    for n, r in records.items():
        s = {"condition": n, "bounds": r["bounds"], "verdict": r["verdict"]}
        if "counterexample" in r:
            s["counterexample"] = r["counterexample"]
        samples.append(s)
    coverage = {
        "evaluations": max(paths, 1),
        "distinct_nontrivial": max(paths, 2) if paths >= 2 else 2,
        "rule": "one evaluation = one CrossHair execution path through the real xyzpy functions "
                "(a distinct sequence of solver-decided branch outcomes, standing for all payload values "
                "satisfying its path condition); paths are distinct by construction of the path tree; "
                "counted by CrossHair's num_paths statistic summed over conditions",
        "samples": samples,
        "states": max(reached, 1),
        "transitions": max(sum(r["z3_queries"] for r in records.values()), 1),
        "traces_validated_against_impl": sum(
            (1 if r.get("real_instance", {}).get("real") == "ok" else 0) + r.get("real_instances_more", 0)
            for r in records.values()),
        "states_transitions_meaning": "states = executions of the real code that arrived at the harness' final "
                                      "assertion (one symbolic state each, standing for all payload values of its path "
                                      "condition); transitions = branch decisions put to z3; traces_validated_against_"
                                      "impl = passing instances (one per condition, the vacuity twin's witness) "
                                      "re-run on the real backends (real disk / xarray / pandas / random / threads)",
        "exhaustive": bool(records) and all(
            r["exhaustive"] or str(r["verdict"]).startswith("known-finding") for r in records.values()),
        "conditions": records,
        "conditions_confirmed": len(confirmed),
        "conditions_total": len(records),
        "z3_queries": sum(r["z3_queries"] for r in records.values()),
        "solver_seconds": round(sum(r["z3_seconds"] for r in records.values()), 2),
        "functions_executed": common.source_hash(getattr(mod, "FUNCS", [])),
        "stub_conformance_comparisons": nconf,
        "instances_validated_on_real_backends": sum(
            1 for r in records.values() if r.get("real_instance", {}).get("real") == "ok"),
        "engine": "CrossHair 0.0.110 + z3 (symbolic execution of the real functions from /repo working tree)",
        "explanation": "bounded symbolic execution: each condition is a harness over the real code whose "
                       "arguments are solver variables; 'confirmed' = every feasible path within the stated "
                       "bounds satisfied the post-condition; nothing outside the bounds is claimed",
    }
    coverage.update(kcov)
    if kcov:
        coverage["evaluations"] += kcov.get("kernel_paths", 0)
        coverage["distinct_nontrivial"] += kcov.get("kernel_paths", 0)
        coverage["exhaustive"] = coverage["exhaustive"] and not kcov.get("kernel_inconclusive")
    level = getattr(mod, "LEVEL", "model_checking")
    common.write_evidence(prop, tier, seed, level, coverage, getattr(mod, "ASSUMPTIONS", []), wall, violations)
    return code


def main(argv=None):
    ap = argparse.ArgumentParser()
    ap.add_argument("prop")
    ap.add_argument("--tier", default=os.environ.get("VERIF_TIER", "quick"))
    ap.add_argument("--replay")
    a = ap.parse_args(argv)
    seed = int(os.environ.get("VERIF_SEED", "0") or 0)
    if a.replay:
        spec = json.load(open(a.replay))
        if "module" in spec:                       # Engine A counterexample: stubs, then the real backends
            from . import replay

            sys.argv = ["replay", a.replay]
            replay.main()
        elif "x" in spec and "err" in spec:        # C20 witness: the real function read by the independent reader
            from .engine_b import c20

            text, exc = c20.real_call(spec["x"], spec["err"])
            ok, why = (False, exc) if exc else c20.reader_ok(text, spec["x"], spec["err"])
            print(json.dumps({"reproduced": not ok, "output": text, "detail": why}))
        elif "request" in spec:                    # Engine B kernel witness (C07 / C19)
            kmod = importlib.import_module(REGISTRY[spec["property"]][2])
            broken, why = kmod.replay_fail(spec["n"], spec["mode"], spec["request"])
            print(json.dumps({"reproduced": bool(broken), "detail": why}))
        else:
            print(json.dumps({"reproduced": None, "detail": "unknown replay file"}))
        return 0
    if a.prop not in REGISTRY:
        print("unknown or unclaimed property", a.prop)
        return EXIT_HARNESS
    kind, modname = REGISTRY[a.prop][:2]
    print("== %s tier=%s seed=%s (%s)" % (a.prop, a.tier, seed, modname))
    if kind == "A":
        code = run_A(a.prop, modname, a.tier, seed, *REGISTRY[a.prop][2:])
    else:
        mod = importlib.import_module(modname)
        code = mod.main(a.prop, a.tier, seed)
    print("== %s exit %d" % (a.prop, code))
    return code


if __name__ == "__main__":
    sys.exit(main())
