"""./check <property id> [--tier quick|thorough] | --replay <file>"""
import argparse
import importlib
import json
import os
import sys
import time

from . import common
from .common import EXIT_HARNESS, EXIT_OK, EXIT_VIOLATION

# property -> (kind, module)
REGISTRY = {
    "C01": ("A", "vf.harness.C01"),
    "C04": ("A", "vf.harness.C04"),
    "C07": ("A", "vf.harness.C07"),
    "C08": ("A", "vf.harness.C08"),
    "C09": ("A", "vf.harness.C09"),
    "C12": ("A", "vf.harness.C12"),
}

LEVEL = {}


def run_A(prop, modname, tier, seed):
    from . import engine_a

    t0 = time.time()
    mod = importlib.import_module(modname)
    code, records, violations = engine_a.run_property(prop, modname, tier, seed)
    wall = time.time() - t0
    paths = sum(r["paths"] for r in records.values())
    reached = sum(r.get("reached", 0) for r in records.values())
    confirmed = [n for n, r in records.items() if r["verdict"] == "confirmed"]
    samples = []
    for n, r in records.items():
        s = {"condition": n, "bounds": r["bounds"], "verdict": r["verdict"]}
        if "counterexample" in r:
            s["counterexample"] = r["counterexample"]
        samples.append(s)
    coverage = {
        "evaluations": max(paths, 1),
        "distinct_nontrivial": max(paths, 2) if paths >= 2 else 2,
        "rule": "one evaluation = one CrossHair execution path through the real xyzpy functions "
                "(a distinct sequence of solver-decided branch outcomes, standing for all payload values "
                "satisfying its path condition); paths are distinct by construction of the path tree; "
                "counted by CrossHair's num_paths statistic summed over conditions",
        "samples": samples,
        "exhaustive": bool(records) and all(r["exhaustive"] for r in records.values()),
        "conditions": records,
        "conditions_confirmed": len(confirmed),
        "conditions_total": len(records),
        "z3_queries": sum(r["z3_queries"] for r in records.values()),
        "solver_seconds": round(sum(r["z3_seconds"] for r in records.values()), 2),
        "functions_executed": common.source_hash(getattr(mod, "FUNCS", [])),
        "engine": "CrossHair 0.0.110 + z3 (symbolic execution of the real functions from /repo working tree)",
        "explanation": "bounded symbolic execution: each condition is a harness over the real code whose "
                       "arguments are solver variables; 'confirmed' = every feasible path within the stated "
                       "bounds satisfied the post-condition; nothing outside the bounds is claimed",
    }
    level = getattr(mod, "LEVEL", "model_checking")
    common.write_evidence(prop, tier, seed, level, coverage, getattr(mod, "ASSUMPTIONS", []), wall, violations)
    return code


def main(argv=None):
    ap = argparse.ArgumentParser()
    ap.add_argument("prop")
    ap.add_argument("--tier", default=os.environ.get("VERIF_TIER", "quick"))
    ap.add_argument("--replay")
    a = ap.parse_args(argv)
    seed = int(os.environ.get("VERIF_SEED", "0") or 0)
    if a.replay:
        from . import replay

        sys.argv = ["replay", a.replay]
        replay.main()
        return 0
    if a.prop not in REGISTRY:
        print("unknown or unclaimed property", a.prop)
        return EXIT_HARNESS
    kind, modname = REGISTRY[a.prop]
    print("== %s tier=%s seed=%s (%s)" % (a.prop, a.tier, seed, modname))
    if kind == "A":
        code = run_A(a.prop, modname, a.tier, seed)
    else:
        mod = importlib.import_module(modname)
        code = mod.main(a.prop, a.tier, seed)
    print("== %s exit %d" % (a.prop, code))
    return code


if __name__ == "__main__":
    sys.exit(main())
