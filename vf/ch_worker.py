"""Run CrossHair on ONE harness condition in this process and dump a JSON verdict.

usage: python -m vf.ch_worker <harness module> <condition name> <timeout s> <out.json>

Environment: VF_REACH=1 runs the vacuity twin (see vf.common.done).
"""
import ast
import collections
import inspect
import json
import os
import sys
import time
import traceback


def parse_call_args(fn, message):
    """Extract the counterexample arguments from a CrossHair message."""
    marker = "when calling "
    if marker not in message:
        return None
    text = message.split(marker, 1)[1]
    # strip a trailing ' (which returns ...)' / ' with ...'
    depth = 0
    end = None
    for i, ch in enumerate(text):
        if ch == "(":
            depth += 1
        elif ch == ")":
            depth -= 1
            if depth == 0:
                end = i + 1
                break
    if end is None:
        return None
    try:
        call = ast.parse(text[:end], mode="eval").body
        params = list(inspect.signature(fn).parameters)
        out = {}
        for name, node in zip(params, call.args):
            out[name] = ast.literal_eval(node)
        for kw in call.keywords:
            out[kw.arg] = ast.literal_eval(kw.value)
        return out
    except Exception:
        return None


def main():
    modname, condname, timeout, outpath = sys.argv[1:5]
    timeout = float(timeout)
    res = {"module": modname, "cond": condname, "timeout": timeout}
    t0 = time.time()
    try:
        import importlib

        import z3

        qstats = {"queries": 0, "seconds": 0.0, "unknown": 0}
        _orig_check = z3.Solver.check

        def counting_check(self, *a, **k):
            t = time.perf_counter()
            r = _orig_check(self, *a, **k)
            dt = time.perf_counter() - t
            qstats["seconds"] += dt
            if dt > 2.0 and os.environ.get("VF_SLOWQ"):
                sys.stderr.write("SLOW QUERY %.1fs %s\n%s\n" % (dt, r, self.sexpr()[-3000:]))
            qstats["queries"] += 1
            if str(r) == "unknown":
                qstats["unknown"] += 1
            return r

        z3.Solver.check = counting_check

        mod = importlib.import_module(modname)
        cond = {c.name: c for c in mod.CONDS}[condname]
        fn = cond.fn

        from crosshair.core_and_libs import analyze_function, run_checkables
        from crosshair.options import AnalysisOptionSet
        from vf import fastpaths

        fastpaths.install()

        stats = collections.Counter()
        opts = AnalysisOptionSet(
            per_condition_timeout=timeout,
            report_all=True,
            stats=stats,
        )
        checkables = analyze_function(fn, opts)
        if not checkables:
            raise RuntimeError("no conditions found on %s" % fn)
        messages = run_checkables(checkables)
        res["messages"] = [
            {
                "state": m.state.name,
                "message": m.message,
                "line": m.line,
                "traceback": (m.traceback or "")[-3000:],
                "args": parse_call_args(fn, m.message),
            }
            for m in messages
        ]
        res["paths"] = stats.get("num_paths", 0)
        from vf import common as _c
        res["reached"] = _c.REACHED[0]
        res["z3_queries"] = qstats["queries"]
        res["z3_seconds"] = round(qstats["seconds"], 3)
        res["z3_unknown"] = qstats["unknown"]
        res["ok"] = True
    except BaseException as e:  # noqa
        res["ok"] = False
        res["error"] = "".join(traceback.format_exception(type(e), e, e.__traceback__))[-4000:]
    res["wall"] = round(time.time() - t0, 2)
    with open(outpath, "w") as f:
        json.dump(res, f)


if __name__ == "__main__":
    main()
