"""Env: installs the environment stubs into the module globals of the xyzpy
modules under test ('sym' mode, used under CrossHair and for stub-level
replays) or prepares a real temporary directory and leaves the real libraries
in place ('real' mode, used to replay counterexamples against the real
backends).  The repository source is executed unmodified in both modes.
"""
import os
import random as _real_random
import shutil as _real_shutil
import tempfile

from .common import HarnessError
from .stubs import basic, fakefs


def _mods():
    import xyzpy.gen.case_runner as ca
    import xyzpy.gen.combo_runner as cr
    import xyzpy.gen.cropping as cp
    import xyzpy.gen.farming as fm
    import xyzpy.manage as mg

    return cr, ca, cp, fm, mg


class Env:
    def __init__(self, mode="sym", *, fs=False, pools=None, pickle="id", xr=False, pd=False,
                 choice=None):
        self.mode = mode
        self.want_fs = fs
        self.pools = pools          # list of Fisher-Yates index lists, or None
        self.pickle = pickle        # 'id' (identity stub) or 'real'
        self.want_xr = xr
        self.want_pd = pd
        self.choice = choice        # list of symbolic ints for np.random.choice
        self._saved = []
        self._restore = []
        self.fs = None
        self.tmp = None
        self.rnd = None

    # ------------------------------------------------------------------
    def _set(self, mod, name, val):
        self._saved.append((mod, name, getattr(mod, name, _MISSING)))
        setattr(mod, name, val)

    def __enter__(self):
        cr, ca, cp, fm, mg = _mods()
        for m in (cr, ca, cp):
            self._set(m, "progbar", basic.nobar)
        self._set(cp, "print", _quiet)     # check_bad / grow chatter
        if self.mode == "sym":
            if self.pools is not None:
                self.rnd = basic.NDRandom(self.pools)
                self._set(cr, "random", self.rnd)
            if self.want_fs:
                self._install_fs(cp, fm, mg)
            if self.want_xr or self.want_pd:
                self._install_xr(cr, ca, cp, fm, mg)
            self.parent = "/p"
        else:
            self.tmp = tempfile.mkdtemp(prefix="vf-replay-")
            self.parent = self.tmp
        return self

    def __exit__(self, *a):
        for mod, name, val in reversed(self._saved):
            if val is _MISSING:
                try:
                    delattr(mod, name)
                except AttributeError:
                    pass
            else:
                setattr(mod, name, val)
        self._saved = []
        for hook in reversed(self._restore):
            hook()
        self._restore = []
        if self.tmp:
            _real_shutil.rmtree(self.tmp, ignore_errors=True)
        return False

    def chdir(self, path):
        """change the working directory of the (modelled or real) process; undone when the Env exits"""
        if self.mode == "sym":
            old = getattr(self.fs, "cwd", "/cwd")
            self.fs.cwd = self.fs._norm(path)
            self._restore.append(lambda: setattr(self.fs, "cwd", old))
        else:
            import os as _os

            old = _os.getcwd()
            _os.chdir(path)
            self._restore.append(lambda: _os.chdir(old))

    # ------------------------------------------------------------------
    def _install_fs(self, cp, fm, mg):
        if self.want_fs == "step":
            from .stubs import stepfs

            fs = self.fs = stepfs.StepFS()
        else:
            fs = self.fs = fakefs.FakeFS()
        fs.makedirs("/p", exist_ok=True)
        fs.makedirs("/cwd", exist_ok=True)
        fos = fakefs.FakeOS(fs)
        for m in (cp, fm, mg):
            self._set(m, "os", fos)
        self._set(cp, "glob", fakefs.FakeGlob(fs))
        self._set(mg, "glob", fakefs.FakeGlob(fs).glob)
        for m in (cp, fm):
            self._set(m, "shutil", fakefs.FakeShutil(fs))
        if self.want_fs == "obj" or self.want_fs is True:
            def write_to_disk(obj, fname):
                fs.put(fname, fakefs.snap(obj))

            def read_from_disk(fname):
                obj = fs.get(fname)
                if obj is fakefs.UNREADABLE:
                    raise EOFError("Ran out of input")
                if obj is fakefs.TRUNCATED:
                    import pickle as _pk

                    raise _pk.UnpicklingError("pickle data was truncated")
                return fakefs.snap(obj)

            self._set(cp, "write_to_disk", write_to_disk)
            self._set(cp, "read_from_disk", read_from_disk)
        if self.want_fs == "step":
            # the REAL write_to_disk / read_from_disk run, on stubbed open / pickle / os
            self._set(cp, "open", stepfs.StepOpen(fs))
            self._set(cp, "pickle", stepfs.StepPickle(fs))
            self.clock = stepfs.StepClock(fs)
            self._set(cp, "time", self.clock)
        if self.pickle == "id":
            self._set(cp, "to_pickle", lambda o, picklelib=None: ("PKL", o))
            self._set(cp, "from_pickle", lambda s, picklelib=None: _unpkl(s))

    def _install_xr(self, cr, ca, cp, fm, mg):
        from .stubs import minixr

        if self.fs is None:
            self._install_fs(cp, fm, mg)
        minixr.install(self, cr, ca, cp, fm, mg)

    def swap_module(self, name, stub):
        """serve function-local `import <name>` from a stub for the duration of the Env"""
        import sys

        old = sys.modules.get(name)
        sys.modules[name] = stub

        def undo():
            if old is None:
                sys.modules.pop(name, None)
            else:
                sys.modules[name] = old

        self._restore.append(undo)

    # ------------------------------------------------------------------
    # helpers usable from harness bodies in both modes
    def seed_for(self, js, n, avoid=()):
        """A shuffle argument whose permutation of n items is the one the
        Fisher-Yates indices js denote.  sym: any int (NDRandom ignores the
        value except as a key); real: search the real generator."""
        if self.mode == "sym":
            return 7
        want = list(range(n))
        basic.fisher_yates(want, js)
        for s in range(1, 200000):
            if s in avoid:
                continue
            _real_random.seed(s)
            x = list(range(n))
            _real_random.shuffle(x)
            if x == want:
                return s
        raise HarnessError("no real seed realises permutation %r" % (want,))

    def exists(self, p):
        return self.fs.exists(p) if self.mode == "sym" else os.path.exists(p)

    def read_obj(self, p):
        """The object stored in a crop file (what read_from_disk would return)."""
        if self.mode == "sym":
            obj = self.fs.get(p)
            if isinstance(obj, fakefs._Unreadable):
                raise EOFError("unreadable")
            return obj
        import pickle

        with open(p, "rb") as f:
            return pickle.load(f)

    def write_obj(self, p, obj):
        if self.mode == "sym":
            self.fs.put(p, obj)
        else:
            import pickle

            with open(p, "wb") as f:
                pickle.dump(obj, f)

    def make_unreadable(self, p, kind="truncated"):
        """Replace a crop file by one that cannot be unpickled: kind 'empty' (zero bytes: EOFError) or 'truncated'
        (cut in half: UnpicklingError)."""
        if self.mode == "sym":
            self.fs.put(p, fakefs.UNREADABLE if kind == "empty" else fakefs.TRUNCATED)
        else:
            with open(p, "rb") as f:
                data = f.read()
            with open(p, "wb") as f:
                f.write(b"" if kind == "empty" else data[: max(1, len(data) // 2)])

    def remove(self, p):
        if self.mode == "sym":
            self.fs.remove(p)
        else:
            os.remove(p)

    def snapshot(self, d):
        """{relative path: content token} of all files under d, for 'untouched' checks."""
        if self.mode == "sym":
            return dict(self.fs.tree(d))
        out = {}
        for root, _, files in os.walk(d):
            for f in files:
                q = os.path.join(root, f)
                with open(q, "rb") as fh:
                    out[q] = fh.read()
        return out

    def same_snapshot(self, a, b):
        if self.mode != "sym":
            return a == b
        if sorted(a) != sorted(b):
            return False
        return all(a[k] is b[k] for k in a)

    def install_clock(self, cp, limit=3):
        """time.sleep stub for reap(wait=True): raises WaitTimeout after `limit` polls."""
        clock = Clock(limit)
        self._set(cp, "time", clock)
        return clock

    def listdir(self, p):
        return self.fs.listdir(p) if self.mode == "sym" else sorted(os.listdir(p))

    def join(self, *a):
        return "/".join(a)


def _quiet(*a, **k):
    pass


class WaitTimeout(Exception):
    """raised by the Clock stub when a waiting reaper has polled `limit` times"""


class Clock:
    def __init__(self, limit):
        self.limit = limit
        self.polls = 0

    def sleep(self, t):
        self.polls += 1
        if self.polls >= self.limit:
            raise WaitTimeout()

    def time(self):
        return float(self.polls)


def _unpkl(s):
    if not (isinstance(s, tuple) and len(s) == 2 and s[0] == "PKL"):
        raise HarnessError("from_pickle of something not produced by to_pickle")
    import copy
    import types

    if isinstance(s[1], types.FunctionType):
        return s[1]
    return copy.deepcopy(s[1])       # every unpickling yields a fresh object


_MISSING = object()
