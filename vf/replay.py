"""Replay a counterexample without CrossHair.

usage: python -m vf.replay <replay.json>

Runs the harness body concretely, first on the stubs ("stub") and then with
the real backends ("real": real temp directory, real random/xarray/pandas
where the harness supports it).  Prints one JSON line:
  {"reproduced": bool, "stub": ..., "real": ..., "key": finding key or null, "detail": str}
A counterexample counts as reproduced only if the real run fails (or, for
harnesses that declare no real mode, the stub run).
"""
import importlib
import json
import sys
import traceback

from .common import HarnessError


def run(body, E, args):
    try:
        ok = body(E, **args)
        return ("ok", "") if ok else ("fail", "property oracle returned False")
    except HarnessError as e:
        return ("harness", "HarnessError: %s" % e)
    except Exception as e:  # noqa
        tb = traceback.format_exception(type(e), e, e.__traceback__)
        return ("fail", "raises %s: %s | %s" % (type(e).__name__, e, "".join(tb[-3:])[-500:]))


def main():
    spec = json.load(open(sys.argv[1]))
    mod = importlib.import_module(spec["module"])
    cond, args = spec["cond"], spec["args"]
    body = mod.BODIES[cond]
    out = {}
    out["stub"], sd = run(body, mod.SYM, args)
    no_real = cond in getattr(mod, "NO_REAL", ())
    if no_real:
        out["real"], rd = "n/a", ""
        reproduced = out["stub"] == "fail"
        detail = sd
    else:
        out["real"], rd = run(body, mod.REAL, args)
        reproduced = out["real"] == "fail"
        detail = rd if reproduced else "stub: %s %s / real: %s %s" % (out["stub"], sd, out["real"], rd)
    out["reproduced"] = reproduced
    out["detail"] = detail[:1500]
    key = None
    if reproduced and hasattr(mod, "classify"):
        try:
            key = mod.classify(cond, args, detail)
        except Exception:
            key = None
    out["key"] = key
    print(json.dumps(out))


if __name__ == "__main__":
    main()
