"""C07 (Engine B kernel) - batch arithmetic for every n <= 48.

Crop.choose_batch_settings and Sower.__init__/__call__/save_batch/__exit__ are translated
from source (pyz3).  n is concrete per query (outer loop); the requested batchsize or
num_batches is a z3 Int over its *whole* range (any integer); the sower is unrolled exactly
n calls plus __exit__; each path carries the written (id, size) list (concrete) and a path
condition over the request.  The negated property must be unsat per path.
"""
import os
import time
from multiprocessing import Pool

import z3

from . import pyz3
from .pyz3 import EncodingError, Explorer, Interp, Rec, check, to_term
from .. import common

PROP = "C07"


def funcs():
    import xyzpy.gen.cropping as cp

    return cp


def make_interp(log):
    cp = funcs()
    I = Interp({"Crop": cp.Crop, "Sower": cp.Sower})
    I.globals["BTCH_NM"] = cp.BTCH_NM

    def write_to_disk(ctx, obj, fname):
        if not (isinstance(fname, tuple) and fname[0] == "path"):
            raise EncodingError("unexpected batch file name")
        log.append((fname[-1], len(obj)))

    I.globals["write_to_disk"] = ("pyfunc", write_to_disk)
    return I, cp


def run_kernel(I, ctx, n, mode, req, log):
    """one path: choose_batch_settings then n sower calls and __exit__"""
    del log[:]
    crop = Rec("Crop")
    crop.f.update(batchsize=None, num_batches=None, _batch_remainder=None, location="LOC")
    if mode == 1:
        crop.f["batchsize"] = req
    elif mode == 2:
        crop.f["num_batches"] = req
    I.call_method(ctx, crop, "choose_batch_settings", [], {"combos": None, "cases": list(range(n))})
    sower = I.new(ctx, "Sower", crop)
    I.call_method(ctx, sower, "__enter__", [])
    for j in range(n):
        I.call_method(ctx, sower, "__call__", [], {"a": j})
    I.call_method(ctx, sower, "__exit__", [None, None, None])
    pending = len(sower.f["_batch_cases"])
    return crop, list(log), pending


def check_n(args):
    n, mode = args
    pyz3.STATS.update(queries=0, seconds=0.0, unknown=0)
    cp = funcs()
    log = []
    I, _ = make_interp(log)
    req = z3.Int("req")
    res = {"n": n, "mode": mode, "paths": 0, "obligations": 0, "discharged": 0, "fail": [], "inconclusive": [],
           "exc_paths": 0}
    ex = Explorer([] if mode else [req == 0], timeout_ms=30000)
    def wit(ctx):
        """a concrete request on this path (for replay of a concretely broken partition)"""
        if check(ctx.sol) != "sat":
            return None
        return ctx.sol.model().eval(req, model_completion=True).as_long()

    try:
        for ctx, out in ex.paths(lambda ctx: run_kernel(I, ctx, n, mode, req, log)):
            res["paths"] += 1
            obligations = []
            if out[0] == "exc":
                res["exc_paths"] += 1
                # a request is rejected only if it is < 1
                obligations.append(("rejected only if request < 1", req >= 1))
                if out[1] not in ("ValueError", "TypeError"):
                    res["fail"].append(("unexpected exception " + out[1], wit(ctx)))
            else:
                crop, written, pending = out[1]
                ids = [w[0] for w in written]
                sizes = [w[1] for w in written]
                B = len(written)
                exp_ids = [cp.BTCH_NM.format(i) for i in range(1, B + 1)]
                concrete_ok = (ids == exp_ids and sum(sizes) == n and all(s >= 1 for s in sizes)
                               and pending == 0 and B >= 1)
                if not concrete_ok:
                    res["fail"].append(("partition broken: ids=%r sizes=%r pending=%d" % (ids, sizes, pending),
                                        wit(ctx)))
                nb = to_term(crop.f["num_batches"])
                bs = to_term(crop.f["batchsize"])
                rem = to_term(crop.f["_batch_remainder"])
                if mode:
                    obligations.append(("accepted only if request >= 1", req < 1))
                obligations.append(("crop.num_batches equals the number of batch files", nb != B))
                if mode == 1:
                    obligations.append(("every batch has at most `batchsize` settings", z3.IntVal(max(sizes)) > req))
                    # B = ceil(n / s)  <=>  (B - 1) * s < n <= B * s
                    obligations.append(("B == ceil(n / batchsize)", z3.Not(z3.And((B - 1) * req < n, n <= B * req))))
                    obligations.append(("persisted batchsize is the request", bs != req))
                if mode == 2:
                    obligations.append(("B == min(num_batches, n)", z3.Not(z3.If(req <= n, B == req, B == n))))
                    if max(sizes) - min(sizes) > 1:
                        res["fail"].append(("batch sizes differ by more than one: %r" % sizes, wit(ctx)))
                    obligations.append(("persisted batchsize/remainder describe the sizes",
                                        z3.Not(z3.And(bs * nb + rem == n, rem >= 0, rem < nb))))
                    obligations.append(("first `remainder` batches carry the extra setting",
                                        z3.Not(z3.And(*[
                                            z3.IntVal(sz) == bs + z3.If(z3.IntVal(i) < rem, 1, 0)
                                            for i, sz in enumerate(sizes)]))))
                if mode == 0:
                    if sizes != [1] * n:
                        res["fail"].append(("default batching is not one setting per batch", wit(ctx)))
            if check(ctx.sol) != "sat":
                res["fail"].append(("vacuous path", None))
                continue
            for desc, neg in obligations:
                res["obligations"] += 1
                r = check(ctx.sol, neg)
                if r == "unsat":
                    res["discharged"] += 1
                elif r == "sat":
                    m = ctx.sol.model()
                    res["fail"].append((desc, m.eval(req, model_completion=True).as_long()))
                else:
                    res["inconclusive"].append(desc)
        if ex.inconclusive:
            res["inconclusive"] += [str(i) for i in ex.inconclusive]
    except EncodingError as e:
        res["encoding_error"] = str(e)
    res["queries"] = pyz3.STATS["queries"]
    res["seconds"] = round(pyz3.STATS["seconds"], 3)
    return res


def real_sizes(n, mode, req):
    """the real choose_batch_settings + Sower, with write_to_disk recording sizes"""
    cp = funcs()
    rec = []
    saved = cp.write_to_disk
    cp.write_to_disk = lambda obj, fname: rec.append((os.path.basename(fname), len(obj)))
    try:
        kw = {} if mode == 0 else ({"batchsize": req} if mode == 1 else {"num_batches": req})
        crop = cp.Crop(name="v", parent_dir="/nonexistent-vf", **kw)
        try:
            crop.choose_batch_settings(combos=None, cases=list(range(n)))
        except (ValueError, TypeError) as e:
            return ("exc", type(e).__name__)
        with cp.Sower(crop) as sow:
            for j in range(n):
                sow(a=j)
        return ("ok", rec, crop.batchsize, crop.num_batches, crop._batch_remainder)
    finally:
        cp.write_to_disk = saved


def validate_translator(nmax=12):
    """encoding evaluated on concrete requests == the real code, for all n <= nmax"""
    log = []
    I, cp = make_interp(log)
    cnt = 0
    for n in range(1, nmax + 1):
        for mode in (0, 1, 2):
            reqs = [0] if mode == 0 else range(-1, n + 3)
            for req in reqs:
                real = real_sizes(n, mode, req)
                ex = Explorer([])
                outs = list(ex.paths(lambda ctx: run_kernel(I, ctx, n, mode, req, log)))
                cnt += 1
                if len(outs) != 1:
                    return cnt, "concrete run forked (n=%d mode=%d req=%d)" % (n, mode, req)
                out = outs[0][1]
                if real[0] == "exc":
                    if out != ("exc", real[1]):
                        return cnt, "real raises %s, encoding %r (n=%d mode=%d req=%d)" % (real[1], out, n, mode, req)
                    continue
                if out[0] != "ret":
                    return cnt, "encoding raises %r, real does not (n=%d mode=%d req=%d)" % (out, n, mode, req)
                crop, written, pending = out[1]
                got = ("ok", [tuple(w) for w in written], crop.f["batchsize"], crop.f["num_batches"],
                       crop.f["_batch_remainder"])
                if got != (real[0], [tuple(w) for w in real[1]], real[2], real[3], real[4]):
                    return cnt, "mismatch n=%d mode=%d req=%d: %r vs %r" % (n, mode, req, got, real)
    return cnt, None


def run(tier):
    """returns (exit_code, coverage dict, lines) - used by the C07 harness driver"""
    t0 = time.time()
    lines = []
    try:
        nval, bad = validate_translator()
    except EncodingError as e:
        return common.EXIT_HARNESS, {}, ["ENCODING-ERROR property=C07 %s" % e], [], []
    if bad:
        return (common.EXIT_HARNESS, {}, ["HARNESS-ERROR property=C07 translator validation failed: %s" % bad],
                [], [])
    nmax = 16 if tier == "quick" else 48
    jobs = [(n, mode) for n in range(1, nmax + 1) for mode in (0, 1, 2)]
    with Pool(int(os.environ.get("VF_JOBS", "14"))) as pool:
        results = pool.map(check_n, jobs, chunksize=2)
    code = common.EXIT_OK
    enc = [r for r in results if "encoding_error" in r]
    if enc:
        return (common.EXIT_HARNESS, {},
                ["ENCODING-ERROR property=C07 %s (n=%s)" % (enc[0]["encoding_error"], enc[0]["n"])], [], [])
    fails = [(r["n"], r["mode"], f) for r in results for f in r["fail"]]
    incon = [(r["n"], r["mode"], i) for r in results for i in r["inconclusive"]]
    cov = {
        "kernel_n_max": nmax,
        "kernel_paths": sum(r["paths"] for r in results),
        "kernel_obligations": sum(r["obligations"] for r in results),
        "kernel_discharged": sum(r["discharged"] for r in results),
        "kernel_queries": sum(r["queries"] for r in results),
        "kernel_solver_seconds": round(sum(r["seconds"] for r in results), 2),
        "kernel_rejecting_paths": sum(r["exc_paths"] for r in results),
        "kernel_translator_validation_inputs": nval,
        "kernel_inconclusive": len(incon),
        "kernel_functions_encoded": common.source_hash(
            [funcs().Crop.choose_batch_settings, funcs().Sower]),
        "kernel_wall_s": round(time.time() - t0, 1),
    }
    return code, cov, lines, fails, incon


def replay_fail(n, mode, req):
    """does the real code break the property for this concrete request?"""
    real = real_sizes(n, mode, req)
    if real[0] == "exc":
        return req >= 1, "request %d rejected with %s" % (req, real[1])
    _, rec, bs, nb, rem = real
    sizes = [s for _, s in rec]
    ids = [i for i, _ in rec]
    cp = funcs()
    problems = []
    if ids != [cp.BTCH_NM.format(i) for i in range(1, len(rec) + 1)]:
        problems.append("ids %r" % ids)
    if sum(sizes) != n or any(s < 1 for s in sizes):
        problems.append("sizes %r" % sizes)
    if nb != len(rec):
        problems.append("num_batches %r vs %d files" % (nb, len(rec)))
    if mode == 1 and (max(sizes) > req or len(rec) != -(-n // req)):
        problems.append("batchsize %d not honoured: %r" % (req, sizes))
    if mode == 2 and (len(rec) != min(req, n) or max(sizes) - min(sizes) > 1):
        problems.append("num_batches %d not honoured: %r" % (req, sizes))
    if mode and req < 1:
        problems.append("request %d accepted" % req)
    if mode == 0 and sizes != [1] * n:
        problems.append("default batching gives sizes %r" % sizes)
    return bool(problems), "; ".join(problems)
