"""C19 (Engine B, IEEE-754 kernels) - the running statistics are accurate *in binary64*, not only over the reals.

The real RunningStatistics / RunningCovariance methods are interpreted from source (pyz3) over z3 FloatingPoint
terms (Float64, round-to-nearest-even), so every rounding of the real code is in the formula.  The inputs are the
lattice points
        x_i = c + s * t_i,      t_i an unsigned b-bit solver variable,  s = 2**sexp,
(exactly representable: c is a multiple of s and c + s * 2**b < 2**53 * s), which is the regime of the property:
offset c up to 1e9, spacing s about 1e-3.  On such inputs the exact statistics are integers in lattice units,
        K * M2_exact / s**2 = K * sum(t**2) - sum(t)**2,        K * mean_exact = K * c + s * sum(t),
computed in bit-vector arithmetic, and the obligation is the accuracy bound "to floating-point accuracy relative to
the data scale"
        |M2 - M2_exact|  <=  CB * u * K * xmax * (R + u * xmax),     |mean - mean_exact| <= CB * u * xmax,
with u = 2**-53, xmax = c + s * 2**b, R = s * 2**b (the largest possible spread) and CB = 8.  A stable algorithm
(Welford: error about u * xmax * R) meets it with room to spare; a sum-of-squares formula (error about
u * K * xmax**2) misses it by a factor xmax / R.  `unsat` = the bound holds for every lattice input; `sat` = a
concrete input, which is replayed on the real class with exact rational reference values.

Bounds: K = 2 with b = 5 bits per sample (quick); K = 2 with b = 6 and K = 3 with b = 4 split into 16 cubes on t_0
(thorough); covariance K = 2 with b = 3 / 4; offsets
1e9 (spacing 2**-10) and 1 (spacing 2**-10, thorough).  Outside: larger K, inputs off the lattice, overflow /
subnormal ranges, `x ** 2` modelled as the correctly rounded product.
"""
import struct
from fractions import Fraction as F

import z3

from . import pyz3
from .pyz3 import EncodingError, Explorer, Interp

CB = 8.0
U53 = 2.0 ** -53
F64 = z3.Float64()
RM = z3.RNE()


def U():
    import xyzpy.utils as u

    return u


def make_interp():
    u = U()
    return Interp({"RunningStatistics": u.RunningStatistics, "RunningCovariance": u.RunningCovariance})


def fv(v):
    return z3.FPVal(v, F64)


def lattice(name, K, b, c, s):
    ts = [z3.BitVec("%s%d" % (name, i), b) for i in range(K)]
    xs = [z3.fpAdd(RM, fv(c), z3.fpMul(RM, fv(s), z3.fpToFPUnsigned(RM, t, F64))) for t in ts]
    return ts, xs


def feed_stats(I, ctx, rs, xs, feed):
    if feed == "single":
        for x in xs:
            I.call_method(ctx, rs, "update", [x])
    elif feed == "chunk":
        I.call_method(ctx, rs, "update_from_it", [list(xs)])
    else:                           # one sample, then the rest as a chunk
        I.call_method(ctx, rs, "update", [xs[0]])
        I.call_method(ctx, rs, "update_from_it", [list(xs[1:])])


def check_fp_stats(K, feed, c, sexp, b, cube, timeout_ms):
    I = make_interp()
    s = 2.0 ** sexp
    ts, xs = lattice("t", K, b, c, s)

    def runner(ctx):
        rs = I.new(ctx, "RunningStatistics")
        feed_stats(I, ctx, rs, xs, feed)
        var = I._invoke(ctx, I.props[("RunningStatistics", "var")], [rs], {})
        return rs.f["count"], rs.f["mean"], rs.f["M2"], var

    wb = 2 * b + 8
    T = [z3.ZeroExt(wb - b, t) for t in ts]
    Sg, Qg = T[0], T[0] * T[0]
    for t in T[1:]:
        Sg, Qg = Sg + t, Qg + t * t
    E = K * Qg - Sg * Sg                                   # K * M2_exact / s**2 >= 0, an integer
    Efp = z3.fpToFPUnsigned(RM, E, F64)
    Sfp = z3.fpToFPUnsigned(RM, Sg, F64)
    xmax = c + s * 2 ** b
    R = s * 2 ** b
    B_M2 = CB * U53 * K * xmax * (R + U53 * xmax) * K / (s * s)      # in units of s**2 / K
    B_mean = CB * U53 * xmax * K / s                                  # in units of s / K
    out = {"paths": 0, "obligations": 0, "discharged": 0, "fail": [], "inconclusive": []}
    base = [ts[0] == cube] if cube is not None else []
    for ctx, o in Explorer(base, timeout_ms=timeout_ms).paths(runner):
        out["paths"] += 1
        if o[0] != "ret":
            w = model_of(ctx.pc, ts)
            out["fail"].append(("the statistics raise %s" % o[1], None if w is None else [c, sexp, feed] + w))
            continue
        count, mean, M2, var = o[1]
        obl = []
        if not isinstance(count, int) or count != K:
            obl.append(("count == K", None))
        if not pyz3.is_fp(mean) or not pyz3.is_fp(M2):
            raise EncodingError("mean / M2 are not floating-point terms")
        lhs = z3.fpMul(RM, fv(K / (s * s)), M2)
        obl.append(("|M2 - exact| <= %g*u*K*xmax*(R + u*xmax)" % CB,
                    z3.Not(z3.fpLEQ(z3.fpAbs(z3.fpSub(RM, lhs, Efp)), fv(B_M2)))))
        lm = z3.fpMul(RM, fv(K / s), z3.fpSub(RM, mean, fv(c)))
        obl.append(("|mean - exact| <= %g*u*xmax" % CB,
                    z3.Not(z3.fpLEQ(z3.fpAbs(z3.fpSub(RM, lm, Sfp)), fv(B_mean)))))
        if pyz3.is_fp(var):
            lv = z3.fpMul(RM, fv(K * K / (s * s)), var)
            obl.append(("|var - exact| <= 2*%g*u*xmax*(R + u*xmax)" % CB,
                        z3.Not(z3.fpLEQ(z3.fpAbs(z3.fpSub(RM, lv, Efp)), fv(2 * B_M2)))))
        else:
            obl.append(("var is a float", None))
        for desc, neg in obl:
            out["obligations"] += 1
            sol = z3.Solver()
            sol.set("timeout", timeout_ms)
            sol.add(*ctx.pc)
            if neg is not None:
                sol.add(neg)
            r = pyz3.check(sol)
            if r == "unsat":
                out["discharged"] += 1
            elif r == "sat":
                m = sol.model()
                out["fail"].append((desc, [c, sexp, feed] + [m.eval(t, model_completion=True).as_long() for t in ts]))
            else:
                out["inconclusive"].append("fp %s K=%d feed=%s c=%g cube=%s" % (desc, K, feed, c, cube))
    return out


def check_fp_covar(K, c, d, sexp, b, timeout_ms):
    """RunningCovariance on two lattice series x = c + s*t, y = d + s*v"""
    I = make_interp()
    s = 2.0 ** sexp
    ts, xs = lattice("t", K, b, c, s)
    vs, ys = lattice("v", K, b, d, s)

    def runner(ctx):
        rc = I.new(ctx, "RunningCovariance")
        for x, y in zip(xs, ys):
            I.call_method(ctx, rc, "update", [x, y])
        return rc.f["count"], rc.f["C"]

    wb = 2 * b + 8
    T = [z3.ZeroExt(wb - b, t) for t in ts]
    V = [z3.ZeroExt(wb - b, t) for t in vs]
    St, Sv, P = T[0], V[0], T[0] * V[0]
    for t, v in zip(T[1:], V[1:]):
        St, Sv, P = St + t, Sv + v, P + t * v
    E = K * P - St * Sv                                   # K * C_exact / s**2, a signed integer
    Efp = z3.fpToFP(RM, E, F64)                           # signed conversion
    xmax, ymax, R = c + s * 2 ** b, d + s * 2 ** b, s * 2 ** b
    B = CB * U53 * K * ((xmax + ymax) * R + U53 * xmax * ymax) * K / (s * s)
    out = {"paths": 0, "obligations": 0, "discharged": 0, "fail": [], "inconclusive": []}
    for ctx, o in Explorer([], timeout_ms=timeout_ms).paths(runner):
        out["paths"] += 1
        if o[0] != "ret":
            w = model_of(ctx.pc, ts + vs)
            out["fail"].append(("the covariance raises %s" % o[1], None if w is None else [c, d, sexp] + w))
            continue
        count, Cc = o[1]
        obl = []
        if not isinstance(count, int) or count != K:
            obl.append(("count == K", None))
        lhs = z3.fpMul(RM, fv(K / (s * s)), Cc)
        obl.append(("|C - exact| <= %g*u*K*((xmax+ymax)*R + u*xmax*ymax)" % CB,
                    z3.Not(z3.fpLEQ(z3.fpAbs(z3.fpSub(RM, lhs, Efp)), fv(B)))))
        for desc, neg in obl:
            out["obligations"] += 1
            sol = z3.Solver()
            sol.set("timeout", timeout_ms)
            sol.add(*ctx.pc)
            if neg is not None:
                sol.add(neg)
            r = pyz3.check(sol)
            if r == "unsat":
                out["discharged"] += 1
            elif r == "sat":
                m = sol.model()
                out["fail"].append((desc, [c, d, sexp] + [m.eval(t, model_completion=True).as_long() for t in ts + vs]))
            else:
                out["inconclusive"].append("fp covar %s K=%d" % (desc, K))
    return out


def model_of(pc, ts):
    sol = z3.Solver()
    sol.add(*pc)
    if pyz3.check(sol) != "sat":
        return None
    m = sol.model()
    return [m.eval(t, model_completion=True).as_long() for t in ts]


# ---- replay on the real classes, exact rational reference
def replay_stats(K, witness):
    c, sexp, feed = witness[:3]
    ts = witness[3:3 + K]
    s = 2.0 ** sexp
    xs = [c + s * t for t in ts]
    assert all(F(x) == F(c) + F(s) * t for x, t in zip(xs, ts)), "lattice point not representable"
    rs = U().RunningStatistics()
    try:
        if feed == "single":
            for x in xs:
                rs.update(x)
        elif feed == "chunk":
            rs.update_from_it(list(xs))
        else:
            rs.update(xs[0])
            rs.update_from_it(list(xs[1:]))
        mean, M2, var, count = rs.mean, rs.M2, rs.var, rs.count
    except Exception as e:  # noqa
        return True, "raises %s: %s" % (type(e).__name__, e)
    fx = [F(x) for x in xs]
    em = sum(fx) / K
    eM2 = sum((x - em) ** 2 for x in fx)
    xmax = F(max(abs(x) for x in xs))
    R = F(max(xs)) - F(min(xs))
    u = F(1, 2 ** 53)
    # the replay uses the *data's own* spread, a bound at least as tight as the query's
    bM2 = F(CB) * u * K * xmax * (R + u * xmax)
    bad = (count != K or abs(F(float(M2)) - eM2) > bM2 or abs(F(float(mean)) - em) > F(CB) * u * xmax
           or abs(F(float(var)) - eM2 / K) > 2 * bM2 / K)
    return bad, ("x=%r feed=%s: count=%s mean=%r M2=%r var=%r; exact mean=%r M2=%r; allowed |dM2| <= %.3g"
                 % (xs, feed, count, mean, M2, var, float(em), float(eM2), float(bM2)))


def replay_covar(K, witness):
    c, d, sexp = witness[:3]
    ts, vs = witness[3:3 + K], witness[3 + K:3 + 2 * K]
    s = 2.0 ** sexp
    xs, ys = [c + s * t for t in ts], [d + s * v for v in vs]
    rc = U().RunningCovariance()
    try:
        for x, y in zip(xs, ys):
            rc.update(x, y)
        Cc, count = rc.C, rc.count
    except Exception as e:  # noqa
        return True, "raises %s: %s" % (type(e).__name__, e)
    fx, fy = [F(x) for x in xs], [F(y) for y in ys]
    mx, my = sum(fx) / K, sum(fy) / K
    eC = sum((x - mx) * (y - my) for x, y in zip(fx, fy))
    u = F(1, 2 ** 53)
    xmax, ymax = F(max(abs(x) for x in xs)), F(max(abs(y) for y in ys))
    R = max(F(max(xs)) - F(min(xs)), F(max(ys)) - F(min(ys)))
    bound = F(CB) * u * K * ((xmax + ymax) * R + u * xmax * ymax)
    bad = count != K or abs(F(float(Cc)) - eC) > bound
    return bad, "x=%r y=%r: C=%r exact %r allowed %.3g" % (xs, ys, Cc, float(eC), float(bound))


def tofloat(term):
    bv = z3.simplify(z3.fpToIEEEBV(term))
    return struct.unpack(">d", bv.as_long().to_bytes(8, "big"))[0]


def validate():
    """the IEEE encoding on concrete samples is bit-identical to the real classes"""
    u = U()
    I = make_interp()
    vecs = [[1.1, 1.4, 1.2, 1.5, 1.3, 1.6], [1e9 + 0.001, 1e9 + 0.003, 1e9 - 0.002], [0.1, -0.7, 3.25e-5, 12345.678]]
    n = 0
    for v in vecs:
        for feed in ("single", "chunk", "mixed"):
            real = u.RunningStatistics()
            if feed == "single":
                for x in v:
                    real.update(x)
            elif feed == "chunk":
                real.update_from_it(list(v))
            else:
                real.update(v[0])
                real.update_from_it(list(v[1:]))

            def runner(ctx):
                rs = I.new(ctx, "RunningStatistics")
                feed_stats(I, ctx, rs, [fv(x) for x in v], feed)
                return rs.f["count"], rs.f["mean"], rs.f["M2"]

            outs = [o for _, o in Explorer([]).paths(runner)]
            n += 1
            if len(outs) != 1 or outs[0][0] != "ret":
                return n, "RunningStatistics on %r (%s): %d paths" % (v, feed, len(outs))
            cnt, m, M2 = outs[0][1]
            if cnt != real.count or tofloat(m) != real.mean or tofloat(M2) != real.M2:
                return n, ("RunningStatistics on %r (%s): encoding mean=%r M2=%r, real mean=%r M2=%r"
                           % (v, feed, tofloat(m), tofloat(M2), real.mean, real.M2))
        w = [x * 0.5 + 1 for x in v]
        rc = u.RunningCovariance()
        for x, y in zip(v, w):
            rc.update(x, y)

        def runner2(ctx):
            r = I.new(ctx, "RunningCovariance")
            for x, y in zip(v, w):
                I.call_method(ctx, r, "update", [fv(x), fv(y)])
            return r.f["C"]

        outs = [o for _, o in Explorer([]).paths(runner2)]
        n += 1
        if len(outs) != 1 or outs[0][0] != "ret" or tofloat(outs[0][1]) != rc.C:
            return n, "RunningCovariance on %r: encoding differs from the real class" % (v,)
    return n, None


def jobs(tier):
    if tier == "quick":
        js = [("fp_stats", 2, (feed, 1e9, -10, 5, None)) for feed in ("single", "chunk")]
        js += [("fp_covar", 2, (1e9, 5e8, -10, 3))]
    else:
        js = [("fp_stats", 2, (feed, c, -10, 6, None)) for feed in ("single", "chunk", "mixed") for c in (1e9, 1.0)]
        js += [("fp_stats", 3, (feed, 1e9, -10, 4, cube)) for feed in ("single", "mixed") for cube in range(16)]
        js += [("fp_covar", 2, (1e9, 5e8, -10, 4)), ("fp_covar", 2, (1.0, 1e9, -10, 3))]
    return js


def run_job(kind, K, extra, tier):
    to = 900000 if tier == "quick" else 3600000
    if kind == "fp_stats":
        feed, c, sexp, b, cube = extra
        return check_fp_stats(K, feed, c, sexp, b, cube, to)
    c, d, sexp, b = extra
    return check_fp_covar(K, c, d, sexp, b, to)
