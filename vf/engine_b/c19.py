"""C19 (Engine B kernels) - running statistics equal the statistics of the whole sample,
as identities over the REALS (floating-point conditioning is outside the claim).

RunningStatistics.update/update_from_it/var/std/err/converged, RunningCovariance.update/
covar/sample_covar and RunningCovarianceMatrix.__init__/update/update_from_it are translated
from source (pyz3), unrolled for K symbolic real samples, and compared with the closed forms
  K*mean = S,  M2 = Q - S^2/K,  C = Sxy - Sx*Sy/K
which are symmetric in the samples, so equality for every chunking and permutation of the same
K samples follows.  `v ** 0.5` is modelled as a fresh s >= 0 with s*s = v.
"""
import os
import time
from fractions import Fraction as F
from multiprocessing import Pool

import z3

from . import c19fp, pyz3
from .pyz3 import EncodingError, Explorer, Interp, Rec, check, to_term, to_real
from .. import common

PROP = "C19"


def U():
    import xyzpy.utils as u

    return u


def make_interp():
    u = U()
    return Interp({"RunningStatistics": u.RunningStatistics, "RunningCovariance": u.RunningCovariance,
                   "RunningCovarianceMatrix": u.RunningCovarianceMatrix})


MAX_PATHS = 64
EXC_FAILS = []


class PathExplosion(Exception):
    pass


def all_paths(ex, runner):
    """every feasible path of the kernel (the unchanged kernels have exactly one; a change that makes them
    branch on the samples is followed path by path, up to MAX_PATHS)"""
    outs = []
    EXC_FAILS[:] = []
    for ctx, out in ex.paths(runner):
        if out[0] != "ret":
            # the real code raises on a feasible input: a failure of the property, with a witness
            s = z3.Solver()
            s.add(ctx.pc)
            wit = None
            if check(s) == "sat":
                m = s.model()
                wit = [str(m.eval(d(), model_completion=True)) for d in m.decls()][:12]
            EXC_FAILS.append(("statistics of the fed samples raise %s" % out[1], wit))
            continue
        outs.append((ctx, out[1]))
        if len(outs) > MAX_PATHS:
            raise PathExplosion("kernel forks into more than %d paths" % MAX_PATHS)
    return outs


def single_path(ex, runner):
    outs = all_paths(ex, runner)
    if len(outs) != 1:
        raise EncodingError("kernel forked into %d paths" % len(outs))
    return outs[0]


def merge(results):
    out = {"paths": len(EXC_FAILS), "obligations": len(EXC_FAILS), "discharged": 0, "fail": list(EXC_FAILS),
           "inconclusive": []}
    for r in results:
        for k in ("paths", "obligations", "discharged"):
            out[k] += r[k]
        out["fail"] += r["fail"]
        out["inconclusive"] += r["inconclusive"]
    return out


def neq(a, b):
    return to_real(to_term(a)) != to_real(to_term(b))


def check_stats(K, chunked):
    I = make_interp()
    xs = [z3.Real("x%d" % i) for i in range(K)]

    def runner(ctx):
        rs = I.new(ctx, "RunningStatistics")
        if chunked:
            h = K // 2
            I.call_method(ctx, rs, "update_from_it", [xs[:h]])
            if h:
                # the statistics are read in between (a memoised value must not survive the next update)
                # (var only: std / err take a square root, whose sign side-condition M2 >= 0 is a degree-2K
                # polynomial inequality the solver cannot settle for large K)
                I._invoke(ctx, I.props[("RunningStatistics", "var")], [rs], {})
            for x in xs[h:]:
                I.call_method(ctx, rs, "update", [x])
        else:
            for x in xs:
                I.call_method(ctx, rs, "update", [x])
        var = I._invoke(ctx, I.props[("RunningStatistics", "var")], [rs], {})
        return rs.f["count"], rs.f["mean"], rs.f["M2"], var

    S = z3.Sum(xs) if K > 1 else xs[0]
    Q = z3.Sum([x * x for x in xs]) if K > 1 else xs[0] * xs[0]
    res = []
    for ctx, (count, mean, M2, var) in all_paths(Explorer([]), runner):
        obl = [("count == K", None if count == K else False),
               ("K * mean == sum(x)", neq(to_real(to_term(mean)) * K, S)),
               ("M2 == sum(x^2) - sum(x)^2 / K", neq(M2, Q - S * S / K)),
               ("var == M2 / K", neq(var, to_real(to_term(M2)) / K))]
        res.append(discharge(ctx, obl, xs))
    return merge(res)


def check_covar(K):
    I = make_interp()
    xs = [z3.Real("x%d" % i) for i in range(K)]
    ys = [z3.Real("y%d" % i) for i in range(K)]

    def runner(ctx):
        rc = I.new(ctx, "RunningCovariance")
        h = K // 2
        I.call_method(ctx, rc, "update_from_it", [xs[:h], ys[:h]]) if False else None
        for x, y in zip(xs, ys):
            I.call_method(ctx, rc, "update", [x, y])
        covar = I._invoke(ctx, I.props[("RunningCovariance", "covar")], [rc], {})
        sc = (I._invoke(ctx, I.props[("RunningCovariance", "sample_covar")], [rc], {})
              if (K > 1 and rc.f["count"] != 1) else None)
        return rc.f["count"], rc.f["xmean"], rc.f["ymean"], rc.f["C"], covar, sc

    Sx, Sy = z3.Sum(xs) if K > 1 else xs[0], z3.Sum(ys) if K > 1 else ys[0]
    Sxy = z3.Sum([x * y for x, y in zip(xs, ys)]) if K > 1 else xs[0] * ys[0]
    closed = Sxy - Sx * Sy / K
    res = []
    for ctx, (count, xm, ym, C, covar, sc) in all_paths(Explorer([]), runner):
        obl = [("count == K", None if count == K else False),
               ("K * xmean == sum(x)", neq(to_real(to_term(xm)) * K, Sx)),
               ("K * ymean == sum(y)", neq(to_real(to_term(ym)) * K, Sy)),
               ("C == sum(xy) - sum(x) sum(y) / K", neq(C, closed)),
               ("covar == C / K", neq(covar, closed / K))]
        if K > 1 and sc is not None:
            obl.append(("sample_covar == C / (K - 1)", neq(sc, closed / (K - 1))))
        res.append(discharge(ctx, obl, xs + ys))
    return merge(res)


def check_matrix(K, n):
    I = make_interp()
    series = [[z3.Real("s%d_%d" % (j, i)) for i in range(K)] for j in range(n)]

    def runner(ctx):
        a = I.new(ctx, "RunningCovarianceMatrix", n)
        b = I.new(ctx, "RunningCovarianceMatrix", n)
        for i in range(K):
            I.call_method(ctx, a, "update", [series[j][i] for j in range(n)])
        I.call_method(ctx, b, "update_from_it", [list(s) for s in series])
        cnt = I._invoke(ctx, I.props[("RunningCovarianceMatrix", "count")], [a], {})
        return a.f["rcs"], b.f["rcs"], cnt

    res = []
    for ctx, (ra, rb, cnt) in all_paths(Explorer([]), runner):
        obl = [("count == K", None if cnt == K else False)]
        # the obligations are on what covar_matrix reads - entry (i, j), i <= j, is rcs[(i, j)].C / rcs[(i, j)].count
        # - not on how the accumulators are stored (extra or mirrored accumulators are the implementation's business)
        for (i, j) in [(i, j) for i in range(n) for j in range(i, n)]:
            if (i, j) not in ra or (i, j) not in rb:
                obl.append(("entry (%d,%d): an accumulator exists" % (i, j), False))
                continue
            Sx, Sy = z3.Sum(series[i]), z3.Sum(series[j])
            Sxy = z3.Sum([x * y for x, y in zip(series[i], series[j])])
            closed = Sxy - Sx * Sy / K
            for nm, r in (("update", ra), ("update_from_it", rb)):
                c = r[(i, j)].f["count"]
                if not pyz3.is_z3(c) and c == 0:
                    obl.append(("entry (%d,%d) fed by %s: count > 0" % (i, j, nm), False))
                    continue
                obl.append(("entry (%d,%d) fed by %s: C / count == whole-sample covariance" % (i, j, nm),
                            neq(to_real(r[(i, j)].f["C"]) / to_real(c), closed / K)))
        res.append(discharge(ctx, obl, [v for s in series for v in s]))
    return merge(res)


def check_matrix_reads(K, n):
    """covar_matrix / sample_covar_matrix read between two chunks and again at the end: every entry of the second
    read is the closed form over ALL samples fed so far (and of the first read over the first chunk)"""
    I = make_interp()
    series = [[z3.Real("s%d_%d" % (j, i)) for i in range(K)] for j in range(n)]
    h = max(1, K // 2)

    def runner(ctx):
        a = I.new(ctx, "RunningCovarianceMatrix", n)
        I.call_method(ctx, a, "update_from_it", [list(s[:h]) for s in series])
        m1 = I._invoke(ctx, I.props[("RunningCovarianceMatrix", "covar_matrix")], [a], {})
        s1 = I._invoke(ctx, I.props[("RunningCovarianceMatrix", "sample_covar_matrix")], [a], {}) if h > 1 else None
        if K > h:
            I.call_method(ctx, a, "update_from_it", [list(s[h:]) for s in series])
        m2 = I._invoke(ctx, I.props[("RunningCovarianceMatrix", "covar_matrix")], [a], {})
        s2 = I._invoke(ctx, I.props[("RunningCovarianceMatrix", "sample_covar_matrix")], [a], {}) if K > 1 else None
        if K > h:
            for i in range(K):
                pass
        return m1, s1, m2, s2

    def closed(i, j, upto):
        xs, ys = series[i][:upto], series[j][:upto]
        Sx, Sy = z3.Sum(xs) if upto > 1 else xs[0], z3.Sum(ys) if upto > 1 else ys[0]
        Sxy = z3.Sum([x * y for x, y in zip(xs, ys)]) if upto > 1 else xs[0] * ys[0]
        return Sxy - Sx * Sy / upto

    res = []
    for ctx, (m1, s1, m2, s2) in all_paths(Explorer([]), runner):
        obl = []
        for (mat, upto, div, nm) in ((m1, h, h, "covar_matrix after the first chunk"),
                                     (s1, h, h - 1, "sample_covar_matrix after the first chunk"),
                                     (m2, K, K, "covar_matrix after both chunks"),
                                     (s2, K, K - 1, "sample_covar_matrix after both chunks")):
            if mat is None:
                continue
            if not isinstance(mat, dict) or sorted(mat) != [(i, j) for i in range(n) for j in range(n)]:
                obl.append((nm + ": an n x n matrix", False))
                continue
            for i in range(n):
                for j in range(n):
                    obl.append(("%s [%d,%d] == closed form" % (nm, i, j),
                                neq(mat[(i, j)], closed(min(i, j), max(i, j), upto) / div)))
        res.append(discharge(ctx, obl, [v for s in series for v in s]))
    return merge(res)


def check_converged(K):
    """converged(rtol, atol) <=> err < rtol * |mean| + atol with err >= 0, err^2 * count^2 == M2"""
    I = make_interp()
    mean, M2, rtol, atol, e = z3.Reals("mean M2 rtol atol e")

    def runner(ctx):
        rs = Rec("RunningStatistics")
        rs.f.update(count=K, mean=mean, M2=M2)
        return I.call_method(ctx, rs, "converged", [rtol, atol])

    out = {"paths": 0, "obligations": 0, "discharged": 0, "fail": [], "inconclusive": []}
    ex = Explorer([M2 >= 0, e >= 0, e * e * K * K == M2], timeout_ms=60000)
    for ctx, o in ex.paths(runner):
        out["paths"] += 1
        if o[0] != "ret":
            out["fail"].append(("converged raised " + o[1], None))
            continue
        res = o[1]
        res = res if pyz3.is_z3(res) else z3.BoolVal(bool(res))
        absmean = z3.If(mean >= 0, mean, -mean)
        spec = e < rtol * absmean + atol
        out["obligations"] += 1
        r = check(ctx.sol, res != spec)
        if r == "unsat":
            out["discharged"] += 1
        elif r == "sat":
            out["fail"].append(("converged disagrees with err < rtol*|mean| + atol", None))
        else:
            out["inconclusive"].append("converged K=%d" % K)
    return out


def discharge(ctx, obl, vars_):
    out = {"paths": 1, "obligations": 0, "discharged": 0, "fail": [], "inconclusive": []}
    for desc, neg in obl:
        out["obligations"] += 1
        if neg is None:
            out["discharged"] += 1
            continue
        s = z3.Solver()
        s.set("timeout", 120000)
        s.add(ctx.pc)
        if neg is False:
            # fails on every input of this path: any model of the path condition is a witness
            if check(s) == "sat":
                m = s.model()
                out["fail"].append((desc, [str(m.eval(v, model_completion=True)) for v in vars_[:32]]))
            continue
        s.add(neg)
        r = check(s)
        if r == "unsat":
            out["discharged"] += 1
        elif r == "sat":
            m = s.model()
            w = [str(m.eval(v, model_completion=True)) for v in vars_[:32]]
            out["fail"].append((desc, w))
        else:
            out["inconclusive"].append(desc)
    return out


TIER = ["quick"]


def _set_tier(t):
    TIER[0] = t


def job(args):
    kind, K, extra = args
    pyz3.STATS.update(queries=0, seconds=0.0, unknown=0)
    try:
        if kind.startswith("fp_"):
            r = c19fp.run_job(kind, K, extra, TIER[0])
        elif kind == "stats":
            r = check_stats(K, extra)
        elif kind == "covar":
            r = check_covar(K)
        elif kind == "matrix":
            r = check_matrix(K, extra)
        elif kind == "matrix_reads":
            r = check_matrix_reads(K, extra)
        else:
            r = check_converged(K)
    except PathExplosion as e:
        r = {"paths": MAX_PATHS, "obligations": 0, "discharged": 0, "fail": [],
             "inconclusive": ["%s K=%s: %s" % (kind, K, e)]}
    except EncodingError as e:
        r = {"paths": 0, "obligations": 0, "discharged": 0, "fail": [], "inconclusive": [], "encoding_error": str(e)}
    r.update(kind=kind, K=K, extra=extra, queries=pyz3.STATS["queries"], seconds=round(pyz3.STATS["seconds"], 3))
    return r


def validate_translator():
    """the encoding on concrete samples == the real classes (exact rationals vs binary64, rel 1e-9)"""
    u = U()
    I = make_interp()
    vecs = [[1.1, 1.4, 1.2, 1.5, 1.3, 1.6], [3.0], [-2.0, 2.0], [0.5, 0.25, 8.0, -1.0, 3.5]]
    n = 0
    for v in vecs:
        real = u.RunningStatistics()
        real.update_from_it(v)

        def runner(ctx):
            rs = I.new(ctx, "RunningStatistics")
            I.call_method(ctx, rs, "update_from_it", [[F(x) for x in v]])
            return rs.f["count"], rs.f["mean"], rs.f["M2"]

        _, (c, m, M2) = single_path(Explorer([]), runner)
        n += 1
        if c != real.count or abs(float(m) - real.mean) > 1e-9 * (1 + abs(real.mean)) or \
                abs(float(M2) - real.M2) > 1e-9 * (1 + abs(real.M2)):
            return n, "RunningStatistics mismatch on %r" % (v,)
        w = [x * 0.5 + 1 for x in v]
        rc = u.RunningCovariance()
        rc.update_from_it(v, w)

        def runner2(ctx):
            r = I.new(ctx, "RunningCovariance")
            for x, y in zip(v, w):
                I.call_method(ctx, r, "update", [F(x), F(y)])
            return r.f["C"]

        _, C = single_path(Explorer([]), runner2)
        n += 1
        if abs(float(C) - rc.C) > 1e-9 * (1 + abs(rc.C)):
            return n, "RunningCovariance mismatch on %r" % (v,)
    return n, None


def run(tier):
    t0 = time.time()
    try:
        nval, bad = validate_translator()
    except EncodingError as e:
        return common.EXIT_HARNESS, {}, ["ENCODING-ERROR property=C19 %s" % e], [], []
    validation_failure = bad      # decided below: fatal unless the kernels produce a reproducible witness
    try:
        nval_fp, bad_fp = c19fp.validate()
    except EncodingError as e:
        return common.EXIT_HARNESS, {}, ["ENCODING-ERROR property=C19 (IEEE kernels) %s" % e], [], []
    if bad_fp and not validation_failure:
        validation_failure = "IEEE encoding: " + bad_fp
    TIER[0] = tier
    if tier == "quick":
        Ks = list(range(1, 41)) + [100]
        Kc = list(range(1, 21))
        Km = [(K, n) for K in (1, 2, 3, 5, 8) for n in (2, 3)]
    else:
        Ks = list(range(1, 121)) + [250, 500]
        Kc = list(range(1, 61))
        Km = [(K, n) for K in (1, 2, 3, 5, 8, 13, 21) for n in (2, 3, 4)]
    fpjobs = c19fp.jobs(tier)
    jobs = list(fpjobs)                       # the longest queries first
    jobs += [("stats", K, ch) for K in Ks for ch in (False, True)]
    jobs += [("covar", K, None) for K in Kc]
    jobs += [("matrix", K, n) for K, n in Km]
    jobs += [("matrix_reads", K, n) for K, n in Km if K >= 2]
    jobs += [("converged", K, None) for K in (1, 2, 3, 5, 10, 100, 1000)]
    with Pool(int(os.environ.get("VF_JOBS", "14")), initializer=_set_tier, initargs=(tier,)) as pool:
        results = pool.map(job, jobs, chunksize=1)
    enc = [r for r in results if "encoding_error" in r]
    if enc:
        return (common.EXIT_HARNESS, {},
                ["ENCODING-ERROR property=C19 %s (%s K=%s)" % (enc[0]["encoding_error"], enc[0]["kind"], enc[0]["K"])],
                [], [])
    fails = [(r["K"], r["kind"], f) for r in results for f in r["fail"]]
    incon = [(r["K"], r["kind"], i) for r in results for i in r["inconclusive"]]
    cov = {
        "kernel_paths": sum(r["paths"] for r in results),
        "kernel_obligations": sum(r["obligations"] for r in results),
        "kernel_discharged": sum(r["discharged"] for r in results),
        "kernel_queries": sum(r["queries"] for r in results),
        "kernel_solver_seconds": round(sum(r["seconds"] for r in results), 2),
        "kernel_K_stats": [min(Ks), max(Ks)], "kernel_K_covar": [min(Kc), max(Kc)],
        "kernel_matrix": Km, "kernel_translator_validation_inputs": nval + nval_fp,
        "kernel_ieee_queries": [[k, K, list(map(str, e))] for k, K, e in fpjobs],
        "kernel_ieee_bound": "|M2 - exact| <= %g*u*K*xmax*(R + u*xmax), |mean - exact| <= %g*u*xmax, binary64 RNE, "
                             "lattice inputs c + 2^sexp * t" % (c19fp.CB, c19fp.CB),
        "kernel_inconclusive": len(incon),
        "kernel_functions_encoded": common.source_hash(
            [U().RunningStatistics, U().RunningCovariance, U().RunningCovarianceMatrix]),
        "kernel_wall_s": round(time.time() - t0, 1),
    }
    if validation_failure and not fails:
        return (common.EXIT_HARNESS, {},
                ["HARNESS-ERROR property=C19 translator validation failed: %s" % validation_failure], [], [])
    lines = []
    if validation_failure:
        # the exact-rational encoding and the binary64 run disagree on a concrete vector (the code's behaviour
        # depends on exact float equalities); the symbolic kernels found witnesses, which are replayed on the real
        # classes and decide the verdict
        lines.append("  note: translator validation disagreed (%s); verdict rests on replayed witnesses"
                     % validation_failure)
        cov["kernel_translator_validation_disagreement"] = validation_failure
    return common.EXIT_OK, cov, lines, fails, incon


def replay_fail(K, kind, witness):
    """run the real classes on the witness samples and compare with the whole-sample statistics"""
    if witness is None:
        return False, "no witness"
    if kind == "fp_stats":
        return c19fp.replay_stats(K, witness)
    if kind == "fp_covar":
        return c19fp.replay_covar(K, witness)
    import numpy as np

    u = U()

    def f(s):
        s = s.replace("?", "")
        return float(F(s)) if "/" in s else float(s)

    vals = [f(w) for w in witness]
    if kind == "stats":
        rs = u.RunningStatistics()
        rs.update_from_it(vals[:K])
        a = np.asarray(vals[:K])
        scale = 1 + abs(a).max() ** 2
        bad = (rs.count != len(a) or abs(rs.mean - a.mean()) > 1e-6 * scale or abs(rs.var - a.var()) > 1e-6 * scale)
        return bad, "count=%s mean=%s var=%s vs numpy %s %s" % (rs.count, rs.mean, rs.var, a.mean(), a.var())
    if kind == "covar":
        h = len(vals) // 2
        xs, ys = vals[:h], vals[h:]
        rc = u.RunningCovariance()
        rc.update_from_it(xs, ys)
        ref = float(np.cov(xs, ys, bias=True)[0, 1]) if h > 1 else 0.0
        scale = 1 + max(abs(v) for v in vals) ** 2
        try:
            bad = rc.count != h or abs(rc.covar - ref) > 1e-6 * scale
            return bad, "count=%s covar=%s vs %d samples, numpy %s" % (rc.count, rc.covar, h, ref)
        except Exception as e:  # noqa
            return True, "raises %s: %s" % (type(e).__name__, e)
    if kind == "matrix_reads":
        n = 2
        while len(vals) % n or (len(vals) // n) != K:
            n += 1
            if n > 8:
                return False, "cannot split the witness"
        series = [vals[i * K:(i + 1) * K] for i in range(n)]
        h = max(1, K // 2)
        rcm = u.RunningCovarianceMatrix(n)
        try:
            rcm.update_from_it(*[s_[:h] for s_ in series])
            first = rcm.covar_matrix
            if K > 1 and h > 1:
                rcm.sample_covar_matrix
            if K > h:
                rcm.update_from_it(*[s_[h:] for s_ in series])
            cm = rcm.covar_matrix
            scm = rcm.sample_covar_matrix if K > 1 else None
            ref = np.cov(np.array(series), bias=True) if K > 1 else np.zeros((n, n))
            sref = np.cov(np.array(series), bias=False) if K > 1 else None
            scale = 1 + max(abs(v) for v in vals) ** 2
            bad = bool((abs(cm - ref) > 1e-6 * scale).any()) or \
                (scm is not None and bool((abs(scm - sref) > 1e-6 * scale).any()))
            return bad, "two chunks with a read in between: covar_matrix=%s vs numpy %s" % (
                cm.tolist(), np.asarray(ref).tolist())
        except Exception as e:  # noqa
            return True, "raises %s: %s" % (type(e).__name__, e)
    if kind == "matrix":
        n = 2
        while len(vals) % n or (len(vals) // n) != K:
            n += 1
            if n > 8:
                return False, "cannot split the witness"
        series = [vals[i * K:(i + 1) * K] for i in range(n)]
        ref = np.cov(np.array(series), bias=True) if K > 1 else np.zeros((n, n))
        scale = 1 + max(abs(v) for v in vals) ** 2
        for how in ("update_from_it", "update"):
            rcm = u.RunningCovarianceMatrix(n)
            try:
                if how == "update":
                    for k in range(K):
                        rcm.update(*[sr[k] for sr in series])
                else:
                    rcm.update_from_it(*series)
                cm = rcm.covar_matrix
                bad = rcm.count != K or bool((abs(cm - ref) > 1e-6 * scale).any())
            except Exception as e:  # noqa
                return True, "fed by %s: raises %s: %s" % (how, type(e).__name__, e)
            if bad:
                return bad, "fed by %s: count=%s covar_matrix=%s vs numpy %s" % (
                    how, rcm.count, cm.tolist(), np.asarray(ref).tolist())
        return False, "count=%s covar_matrix=%s vs numpy %s" % (rcm.count, cm.tolist(), np.asarray(ref).tolist())
    return False, "no real replay for kernel %s" % kind
