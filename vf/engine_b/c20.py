"""C20 - a number formatted with its error reads back as that number and that error.

The *source* of xyzpy.utils.format_number_with_error is translated (pyz3) to z3 terms over
the reals, once per pair of decade classes 10^a <= |x| < 10^(a+1), 10^b <= err < 10^(b+1)
(and the class x == 0).  Within a class the mantissas are unbounded reals, so every rounding
boundary lies inside the query.  The specification is the usual-convention reader written on
the format objects; the negated specification must be unsat on every path of every class.
"""
import itertools
import json
import math
import os
import re
import sys
import time
from fractions import Fraction as F
from multiprocessing import Pool

import z3

from . import pyz3
from .pyz3 import (Digits, EncodingError, Explorer, Fixed, Interp, Out, Suffix, SymReal, check, p10)
from .. import common

PROP = "C20"


def get_fn():
    import xyzpy.utils as U

    return U.format_number_with_error


def make_interp():
    return Interp({"format_number_with_error": get_fn()})


def parts_of(ret):
    """normalise the returned format object: (Fixed, Digits, K or None)"""
    if not isinstance(ret, Out):
        raise EncodingError("unexpected return shape")
    ps = []
    for p in ret.parts:
        if isinstance(p, Out):
            ps.extend(p.parts)
        else:
            ps.append(p)
    ps = [p for p in ps if not (isinstance(p, str) and p == "")]
    if len(ps) >= 3 and pyz3.is_z3(ps[2]) and z3.is_int(ps[2]):
        ps[2] = Digits(ps[2], 1)                   # an int printed as it is
    if len(ps) < 4 or not isinstance(ps[0], Fixed) or ps[1] != "(" or not isinstance(ps[2], Digits) or ps[3] != ")":
        raise EncodingError("unexpected output structure %r" % ([type(p).__name__ for p in ps],))
    rest = ps[4:]
    if not rest:
        return ps[0], ps[2], None
    if len(rest) == 2 and rest[0] == "e" and isinstance(rest[1], Suffix):
        return ps[0], ps[2], rest[1].k
    if len(rest) == 2 and rest[0] == "e" and isinstance(rest[1], pyz3.ExpStr):
        # the exponent field of a '%e' rendering spliced in as it is: sign and at least two digits, which is what
        # '+03d' prints for the same integer
        return ps[0], ps[2], rest[1].e
    raise EncodingError("unexpected suffix")


def explore_class(I, a, b, sign, extra=None):
    """yield (ctx, outcome, x, err) for every path of the class"""
    x, err = z3.Real("x"), z3.Real("err")
    if a is None:
        X = SymReal(z3.RealVal(0), 0, +1)
        base = [x == 0]
    else:
        X = SymReal(x, a, sign)
        base = [X.absterm() >= p10(a), X.absterm() < p10(a + 1)]
    E = SymReal(err, b, +1)
    base += [err >= p10(b), err < p10(b + 1)]
    if extra:
        base += extra(x, err)
    ex = Explorer(base)
    for ctx, out in ex.paths(lambda ctx: I.call_function(ctx, "format_number_with_error", [X, E])):
        yield ex, ctx, out, x, err


def spec_terms(ctx, fx, dg, K, x, err, a):
    """the reader: output denotes value n*u and error mm*u with u = 10^(K-d)"""
    Kc = 0 if K is None else ctx.pick(K)
    u = F(10) ** (Kc - fx.d)
    mm = z3.ToReal(dg.n)
    s_err = z3.And(dg.n >= 10, dg.n <= 99, err - mm * u <= u / 2, mm * u - err <= u / 2)
    xa = -x if (a is not None and fx.sign < 0) else x
    if a is None:
        xa = z3.RealVal(0)
    n = z3.ToReal(fx.n)
    s_val = z3.And(xa - n * u <= u / 2, n * u - xa <= u / 2)
    return z3.And(s_err, s_val), Kc


def render(model, fx, dg, Kc, K):
    """the string the format objects denote under a model"""
    n = model.eval(fx.n, model_completion=True).as_long()
    d = fx.d
    s = str(n).rjust(d + 1, "0")
    body = s if d == 0 else s[:-d] + "." + s[-d:]
    neg = fx.sign < 0 and True
    mm = model.eval(dg.n, model_completion=True).as_long()
    out = ("-" if neg else "") + body + "(" + str(mm).rjust(dg.ndig, "0") + ")"
    if K is not None:
        out += "e%+03d" % Kc
    return out


RX = re.compile(r"^(-?)(\d+)(?:\.(\d+))?\((\d+)\)(?:e([+-]\d+))?$")


def reader_ok(text, x, err):
    """independent reader (regex + Fraction): does `text` denote x and err by the convention?"""
    m = RX.match(text)
    if not m:
        return False, "unparseable"
    sgn, ip, fp, mm, ex = m.groups()
    fp = fp or ""
    K = int(ex) if ex else 0
    u = F(10) ** (K - len(fp))
    val = F(int(ip + fp)) * u * (-1 if sgn else 1)
    e = F(int(mm)) * u
    X, E = F(x), F(err)
    if not (len(mm) == 2 and 10 <= int(mm) <= 99):
        return False, "error not shown with two significant digits"
    if abs(E - e) > u / 2:
        return False, "bracket denotes error %s, true error %s" % (float(e), err)
    if abs(X - val) > u / 2:
        return False, "digits denote %s, true value %s" % (float(val), x)
    return True, ""


def real_call(x, err):
    fn = get_fn()
    try:
        return fn(x, err), None
    except Exception as e:  # noqa
        return None, "%s: %s" % (type(e).__name__, e)


def candidates(ctx, neg_spec, x, err):
    """witness plus a few nearby witnesses (away from rounding ties)"""
    sol = z3.Solver()
    sol.set("timeout", 20000)
    sol.add(ctx.pc)
    sol.add(neg_spec)
    out = []
    if check(sol) != "sat":
        return out
    m = sol.model()
    wx, we = m.eval(x, model_completion=True), m.eval(err, model_completion=True)
    fx_, fe_ = frac(wx), frac(we)
    out.append((fx_, fe_))
    for dx, de in ((1, 1), (-1, 1), (1, -1), (-1, -1), (1, 0), (0, 1), (-1, 0), (0, -1)):
        sol.push()
        eps = F(1, 10 ** 7)
        if dx:
            sol.add(x >= fx_ + abs(fx_) * eps if dx > 0 else x <= fx_ - abs(fx_) * eps)
        if de:
            sol.add(err >= fe_ * (1 + eps) if de > 0 else err <= fe_ * (1 - eps))
        if check(sol) == "sat":
            m2 = sol.model()
            out.append((frac(m2.eval(x, model_completion=True)), frac(m2.eval(err, model_completion=True))))
        sol.pop()
    return out


def frac(v):
    if z3.is_algebraic_value(v):
        v = v.approx(20)
    return F(v.numerator_as_long(), v.denominator_as_long())


def check_class(args):
    a, b, sign = args
    pyz3.STATS.update(queries=0, seconds=0.0, unknown=0)
    I = make_interp()
    res = {"cls": [a, b, sign], "paths": 0, "unsat": 0, "sat": [], "inconclusive": [], "vacuous": 0}
    try:
        for ex, ctx, out, x, err in explore_class(I, a, b, sign):
            res["paths"] += 1
            if out[0] == "exc":
                neg = z3.BoolVal(True)
                desc = "raises " + out[1]
                Kc = None
            else:
                fx, dg, K = parts_of(out[1])
                try:
                    spec, Kc = spec_terms(ctx, fx, dg, K, x, err, a)
                except pyz3.Infeasible:
                    res["vacuous"] += 1
                    continue
                neg = z3.Not(spec)
                desc = "misreads"
            # vacuity guard: the path itself must be satisfiable
            if check(ctx.sol) != "sat":
                res["vacuous"] += 1
                continue
            r = check(ctx.sol, neg)
            if r == "unsat":
                res["unsat"] += 1
            elif r == "sat":
                cands = candidates(ctx, neg, x, err)
                res["sat"].append({"desc": desc, "cands": [[str(c[0]), str(c[1])] for c in cands]})
            else:
                res["inconclusive"].append("solver unknown")
            if ex.inconclusive:
                res["inconclusive"] += [str(i) for i in ex.inconclusive]
                ex.inconclusive.clear()
    except EncodingError as e:
        res["encoding_error"] = str(e)
    res["queries"] = pyz3.STATS["queries"]
    res["seconds"] = round(pyz3.STATS["seconds"], 3)
    return res


# ---------------------------------------------------------------- translator validation
def lattice():
    pts = []
    mants = [1.0, 1.004, 1.5, 2.5, 4.999, 5.0, 9.94, 9.95, 9.96, 9.995, 9.9996]
    for a in (-3, -2, -1, 0, 1, 2, 3):
        for rel in (-4, -2, -1, 0, 1, 2):
            for mx in (1.0, 3.14159, 9.95, 9.9996):
                for me in (1.0, 2.55, 9.94, 9.96):
                    pts.append((mx * 10.0 ** a, me * 10.0 ** (a + rel)))
    pts += [(0.1542412, 0.0626653), (-128124123097.0, 6424.0), (0.0, 0.3), (-3.2, 4.5), (99.9, 9.96)]
    for m in mants:
        # either side of the err < |x / 10| decision (the tie itself depends on the
        # last bit of a binary64 division, which is outside the claim)
        pts.append((m * 10, m * 0.999))
        pts.append((m * 10, m * 1.001))
    return pts


def decade(v):
    v = abs(F(v))
    k = 0
    while v >= 10:
        v /= 10
        k += 1
    while v < 1:
        v *= 10
        k -= 1
    return k


def validate_translator():
    """the encoding, evaluated on concrete inputs, must print what the real function prints"""
    I = make_interp()
    n = 0
    for xv, ev_ in lattice():
        real, exc = real_call(xv, ev_)
        a = None if xv == 0 else decade(xv)
        b = decade(ev_)
        sign = -1 if xv < 0 else 1
        outs = []
        for ex, ctx, out, x, err in explore_class(
                I, a, b, sign, extra=lambda x, err: [x == z3.RealVal(F(xv)), err == z3.RealVal(F(ev_))]):
            if out[0] == "exc":
                outs.append("EXC:" + out[1])
                continue
            fx, dg, K = parts_of(out[1])
            try:
                Kc = 0 if K is None else ctx.pick(K)
            except pyz3.Infeasible:
                continue                  # a path that cannot be taken for these concrete inputs
            if check(ctx.sol) != "sat":
                continue
            outs.append(render(ctx.sol.model(), fx, dg, Kc, K))
        n += 1
        if exc is not None:
            if not any(o.startswith("EXC:") for o in outs):
                return n, "real raises %s for (%r, %r) but the encoding gives %r" % (exc, xv, ev_, outs)
        elif real not in outs:
            # binary64 division x / 10**k may differ from the exact quotient by an ulp: only a
            # disagreement that is not a last-digit tie counts
            if not any(close(real, o) for o in outs):
                return n, "real %r vs encoding %r for (%r, %r)" % (real, outs, xv, ev_)
    return n, None


def close(s1, s2):
    m1, m2 = RX.match(s1), RX.match(s2)
    if not m1 or not m2:
        return False
    g1, g2 = m1.groups(), m2.groups()
    if g1[0] != g2[0] or g1[4] != g2[4] or len(g1[2] or "") != len(g2[2] or ""):
        return False
    v1, v2 = int(g1[1] + (g1[2] or "")), int(g2[1] + (g2[2] or ""))
    return abs(v1 - v2) <= 1 and abs(int(g1[3]) - int(g2[3])) <= 1


def cvc5_crosscheck(samples):
    """re-decide a sample of (pc, negated spec) queries with cvc5 on the generated SMT-LIB"""
    try:
        import cvc5
        from cvc5 import Kind  # noqa
    except Exception as e:
        return {"available": False, "why": str(e)}
    agree = dis = unk = 0
    for smt2, z3res in samples:
        try:
            slv = cvc5.Solver()
            slv.setOption("tlimit-per", "20000")
            slv.setLogic("ALL")
            parser = cvc5.InputParser(slv)
            parser.setStringInput(cvc5.InputLanguage.SMT_LIB_2_6, smt2 + "\n(check-sat)\n", "q")
            sm = parser.getSymbolManager()
            r = None
            while True:
                cmd = parser.nextCommand()
                if cmd.isNull():
                    break
                out = cmd.invoke(slv, sm)
                if "sat" in out:
                    r = out.strip()
            if r is None or r.startswith("unknown") or "error" in (r or ""):
                unk += 1
            elif r == z3res:
                agree += 1
            else:
                dis += 1
        except Exception:
            unk += 1
    return {"available": True, "agree": agree, "disagree": dis, "unknown": unk}


def sample_queries(classes, k=12):
    """SMT-LIB text of the (path, negated spec) query for a few classes"""
    out = []
    I = make_interp()
    step = max(1, len(classes) // k)
    for a, b, sign in classes[::step][:k]:
        for ex, ctx, o, x, err in explore_class(I, a, b, sign):
            if o[0] != "ret":
                continue
            fx, dg, K = parts_of(o[1])
            try:
                spec, Kc = spec_terms(ctx, fx, dg, K, x, err, a)
            except pyz3.Infeasible:
                continue
            s = z3.Solver()
            s.add(ctx.pc)
            s.add(z3.Not(spec))
            out.append((s.to_smt2().replace("(check-sat)", ""), check(s)))
            break
    return out


def main(prop, tier, seed):
    t0 = time.time()
    lines = []
    print("  translator validation ...", flush=True)
    try:
        nval, bad = validate_translator()
    except EncodingError as e:
        print("ENCODING-ERROR property=%s %s" % (prop, e))
        return common.EXIT_HARNESS
    if bad:
        print("HARNESS-ERROR property=%s translator validation failed: %s" % (prop, bad))
        return common.EXIT_HARNESS
    print("  translator agrees with the real function on %d concrete inputs" % nval)

    if tier == "quick":
        A, R = range(-6, 7), range(-13, 14)
    else:
        A, R = range(-30, 31), range(-13, 14)
    classes = [(a, a + r, s) for a in A for r in R for s in (1, -1)]
    classes += [(None, b, 1) for b in range(-20, 21)]
    with Pool(int(os.environ.get("VF_JOBS", "14"))) as pool:
        results = pool.map(check_class, classes, chunksize=8)

    paths = sum(r["paths"] for r in results)
    unsat = sum(r["unsat"] for r in results)
    queries = sum(r["queries"] for r in results)
    seconds = sum(r["seconds"] for r in results)
    enc = [r for r in results if "encoding_error" in r]
    if enc:
        print("ENCODING-ERROR property=%s %s (class %s)" % (prop, enc[0]["encoding_error"], enc[0]["cls"]))
        return common.EXIT_HARNESS
    vac = sum(r["vacuous"] for r in results)
    inconclusive = [r for r in results if r["inconclusive"]]
    findings = common.open_findings(prop)
    violations, known, artefacts = [], [], []
    for r in results:
        for s in r["sat"]:
            confirmed = None
            for cx, ce in s["cands"]:
                xf, ef = float(F(cx)), float(F(ce))
                if not (ef > 0 and math.isfinite(xf) and math.isfinite(ef)):
                    continue
                text, exc = real_call(xf, ef)
                if exc is not None:
                    confirmed = (xf, ef, None, exc)
                    break
                ok, why = reader_ok(text, xf, ef)
                if not ok:
                    confirmed = (xf, ef, text, why)
                    break
            if confirmed:
                violations.append((r["cls"], confirmed))
            else:
                artefacts.append((r["cls"], s["cands"][:1]))
    code = common.EXIT_OK
    vcount = 0
    for cls, (xf, ef, text, why) in violations:
        key = "class a=%s b=%s" % (cls[0], cls[1])
        if key in findings:
            known.append(key)
            continue
        vcount += 1
        os.makedirs(common.REPLAY_DIR, exist_ok=True)
        path = os.path.join(common.REPLAY_DIR, "C20-a%s-b%s-s%s.json" % tuple(cls))
        with open(path, "w") as f:
            json.dump({"property": prop, "x": xf, "err": ef, "output": text, "why": why, "class": cls}, f)
        if vcount <= 5:
            print("VIOLATION property=%s replay=%s" % (prop, path))
            print("  format_number_with_error(%r, %r) -> %r: %s" % (xf, ef, text, why))
        code = common.EXIT_VIOLATION
    for k in sorted(set(known)):
        print("KNOWN-FINDING: property=%s %s" % (prop, k))
    if artefacts:
        # sat in the real-arithmetic model but not reproducible on binary64 (rounding-tie artefact)
        print("  %d sat answers did not reproduce on the real function (tie artefacts), e.g. %s"
              % (len(artefacts), artefacts[0]))
        code = max(code, common.EXIT_HARNESS) if len(artefacts) > 0 and not violations else code
    for r in inconclusive[:5]:
        print("INCONCLUSIVE property=%s class=%s %s" % (prop, r["cls"], r["inconclusive"][:1]))
    cv = cvc5_crosscheck(sample_queries(classes))
    if cv.get("disagree"):
        print("INCONCLUSIVE property=%s z3 and cvc5 disagree on %d sampled queries" % (prop, cv["disagree"]))
    wall = time.time() - t0
    print("  classes=%d paths=%d unsat=%d sat-classes=%d queries=%d solver=%.1fs cvc5=%s wall=%.1fs"
          % (len(classes), paths, unsat, len(violations), queries, seconds, cv, wall))
    coverage = {
        "evaluations": paths,
        "distinct_nontrivial": max(unsat, 2),
        "rule": "one evaluation = one feasible path of the translated source within one decade class "
                "(a, b, sign) with its negated-specification query; distinct by (class, branch decisions, "
                "value-split integers); non-trivial = path satisfiable (vacuity guard) and query answered unsat",
        "samples": [{"class": r["cls"], "paths": r["paths"], "unsat": r["unsat"], "sat": r["sat"][:1]}
                    for r in results[:: max(1, len(results) // 12)]],
        "exhaustive": not inconclusive and not artefacts,
        "explanation": "per decade class, the negated reader-specification is unsat over all real x, err of the "
                       "class on every path of the translated source",
        "classes": len(classes), "decades_x": [min(A), max(A)], "rel_decades_err": [min(R), max(R)],
        "zero_class_err_decades": [-20, 20],
        "queries": queries, "solver_seconds": round(seconds, 2), "vacuous_paths": vac,
        "translator_validation_inputs": nval, "cvc5_crosscheck": cv,
        "tie_artefacts": len(artefacts), "inconclusive_classes": len(inconclusive),
        "functions_encoded": common.source_hash([get_fn()]),
        "engine": "pyz3 (AST -> z3 Real/Int), z3 %s" % z3.get_version_string(),
    }
    assumptions = [
        "Python floats are treated as the exact rationals they are; the two binary64 divisions x/10**k, err/10**k "
        "are modelled as exact real division (<= 1 ulp, can only matter within an ulp of a rounding tie)",
        "float formatting modelled relationally: '%.pe' / '%.df' produce *a* correctly rounded digit string "
        "(ties may round either way)",
        "|x| outside 10^%d..10^%d, err/|x| outside 10^-13..10^13, non-finite inputs: outside the claim"
        % (min(A), max(A) + 1),
    ]
    common.write_evidence(prop, tier, seed, "model_checking", coverage, assumptions, wall, vcount)
    return code
