"""pyz3 - a small forking symbolic interpreter over the Python AST, producing z3 terms.

Scope: the three numeric kernels of xyzpy that CrossHair cannot keep symbolic
(batch arithmetic, Welford updates over the reals, number-with-error formatting).
The *source* is re-read from the live module on every run (inspect.getsource).

Execution model: one path = one straight-line execution of the function with a
decision prefix (like CrossHair, but values are z3 Int/Real terms over mathematical
integers and reals).  At a branch on a symbolic condition both sides are checked for
feasibility with z3; the untaken feasible side is queued.  Small-range integer
expressions that must be concrete (10**k, format precisions) are value-split by
check/block enumeration.  Anything outside the supported subset raises
EncodingError: no verdict is ever produced from a partial translation.
"""
import ast
import inspect
import sys
import textwrap
import time
from fractions import Fraction as F

import z3


class EncodingError(Exception):
    pass


class Infeasible(Exception):
    pass


class PyRaise(Exception):
    """the interpreted code raised exception class `name`"""

    def __init__(self, name, msg=""):
        self.name, self.msg = name, msg


class _Return(Exception):
    def __init__(self, v):
        self.v = v


STATS = {"queries": 0, "seconds": 0.0, "unknown": 0}


def check(sol, *extra):
    t = time.perf_counter()
    r = sol.check(*extra)
    STATS["seconds"] += time.perf_counter() - t
    STATS["queries"] += 1
    s = str(r)
    if s == "unknown":
        STATS["unknown"] += 1
    return s


# ----------------------------------------------------------------- values
INF = ("INF",)


class Rec:
    """instance of an interpreted class"""

    def __init__(self, cls):
        self.cls = cls
        self.f = {}


class Quot:
    """a / b for integer terms, kept unevaluated so that math.ceil can be exact"""

    def __init__(self, a, b):
        self.a, self.b = a, b


class SymReal:
    """real term whose decade is known: 10^dec <= |t| < 10^(dec+1); sign is +1/-1"""

    def __init__(self, t, dec, sign):
        self.t, self.dec, self.sign = t, dec, sign

    def absterm(self):
        return self.t if self.sign > 0 else -self.t


class Sci:       # f"{v:.{p}e}"
    def __init__(self, digits, exp, sign, p):
        self.digits, self.exp, self.sign, self.p = digits, exp, sign, p


class Mant:      # "d.ddd" part of a Sci
    def __init__(self, sci):
        self.sci = sci


class ExpStr:    # "+NN" part of a Sci
    def __init__(self, e):
        self.e = e


class Digits:    # mantissa with the dot removed
    def __init__(self, n, ndig):
        self.n, self.ndig = n, ndig


class Fixed:     # f"{v:.{d}f}"
    def __init__(self, n, d, sign):
        self.n, self.d, self.sign = n, d, sign


class Suffix:    # f"e{k:+03d}"
    def __init__(self, k):
        self.k = k


class Out:       # concatenation of string pieces
    def __init__(self, parts):
        self.parts = parts


def is_z3(v):
    return isinstance(v, z3.ExprRef)


def is_bool_term(v):
    return is_z3(v) and z3.is_bool(v)


def to_term(v):
    """Python number -> z3 numeral (exact)"""
    if is_z3(v):
        return v
    if isinstance(v, bool):
        return z3.BoolVal(v)
    if isinstance(v, int):
        return z3.IntVal(v)
    if isinstance(v, F):
        return z3.RealVal(v)
    if isinstance(v, float):
        return z3.RealVal(F(v))
    raise EncodingError("cannot turn %r into a term" % (v,))



# ---- IEEE-754 mode: values that are z3 FloatingPoint terms are combined with the correctly rounded operations
# (round-to-nearest-even), Python numbers met on the way are converted exactly (ints below 2**53, float constants)
RM = z3.RNE()


def is_fp(v):
    return is_z3(v) and z3.is_fp(v)


def fp_const(v, sort):
    if is_fp(v):
        return v
    if isinstance(v, bool):
        v = int(v)
    if isinstance(v, Quot):
        if isinstance(v.a, int) and isinstance(v.b, int):
            return z3.FPVal(v.a / v.b, sort)              # int / int is correctly rounded in CPython
        raise EncodingError("symbolic int quotient in floating-point arithmetic")
    if isinstance(v, int):
        if abs(v) >= 2 ** 53:
            raise EncodingError("int too large for exact conversion")
        return z3.FPVal(float(v), sort)
    if isinstance(v, F):
        if F(float(v)) != v:
            raise EncodingError("constant %r is not a binary64 number" % (v,))
        return z3.FPVal(float(v), sort)
    if isinstance(v, float):
        return z3.FPVal(v, sort)
    raise EncodingError("cannot use %r in floating-point arithmetic" % (v,))


def fp_sort_of(*vs):
    for v in vs:
        if is_fp(v):
            return v.sort()
    return None


class Mat(dict):
    """model of a 2-d numpy array filled cell by cell: a[i, j] = v, a[i, j], a.copy()"""

    def __init__(self, shape, cells=()):
        dict.__init__(self, cells)
        self.shape = tuple(shape)

    def copy(self):
        return Mat(self.shape, self.items())


class Vec:
    """model of a 1-d numpy float array: element-wise arithmetic, sequential sum (numpy's pairwise summation is the
    plain left-to-right loop for fewer than 8 elements)"""

    def __init__(self, items):
        self.items = list(items)

    def __len__(self):
        return len(self.items)

    def __iter__(self):
        return iter(self.items)

    def __getitem__(self, k):
        r = self.items[k]
        return Vec(r) if isinstance(k, slice) else r


def is_real(v):
    return isinstance(v, (F, float)) or (is_z3(v) and z3.is_real(v))


def p10(k):
    return z3.RealVal(F(10) ** k)


# ----------------------------------------------------------------- explorer
class Ctx:
    """state of one path"""

    def __init__(self, explorer, prefix, base_pc):
        self.ex = explorer
        self.prefix = prefix
        self.pos = 0
        self.taken = []
        self.sol = z3.Solver()
        self.sol.set("timeout", explorer.timeout_ms)
        self.pc = []
        self.known = {}
        self.nfresh = 0
        for c in base_pc:
            self.assume(c)

    def assume(self, c):
        self.pc.append(c)
        self.sol.add(c)

    def fresh(self, tag, sort="int"):
        self.nfresh += 1
        name = "%s!%d" % (tag, self.nfresh)
        return z3.Int(name) if sort == "int" else z3.Real(name)

    def branch(self, cond):
        """decide a symbolic boolean; returns a Python bool"""
        if isinstance(cond, bool):
            return cond
        s = z3.simplify(cond)
        if z3.is_true(s):
            return True
        if z3.is_false(s):
            return False
        if self.pos < len(self.prefix):
            d = self.prefix[self.pos]
            self.pos += 1
            self.taken.append(d)
            self.assume(cond if d else z3.Not(cond))
            return d
        rt = check(self.sol, cond)
        rf = check(self.sol, z3.Not(cond))
        if "unknown" in (rt, rf):
            self.ex.inconclusive.append(("branch", str(cond)[:200]))
        t_ok, f_ok = rt != "unsat", rf != "unsat"
        if not t_ok and not f_ok:
            raise Infeasible()
        d = t_ok
        if t_ok and f_ok:
            self.ex.work.append(self.taken + [False])
        self.pos += 1
        self.taken.append(d)
        self.assume(cond if d else z3.Not(cond))
        return d

    def pick(self, term):
        """value-split an integer term: returns a Python int"""
        if isinstance(term, bool):
            return int(term)
        if isinstance(term, int):
            return term
        s = z3.simplify(term)
        if z3.is_int_value(s):
            return s.as_long()
        key = term.sexpr()
        if key in self.known:
            return self.known[key]
        excl = ()
        if self.pos < len(self.prefix):
            d = self.prefix[self.pos]
            if d[0] == "val":
                self.pos += 1
                self.taken.append(d)
                self.assume(term == d[1])
                self.known[key] = d[1]
                return d[1]
            excl = d[1]
        for v in excl:
            self.sol.add(term != v)
        r = check(self.sol)
        if r == "unknown":
            self.ex.inconclusive.append(("pick", str(term)[:200]))
        if r != "sat":
            raise Infeasible()
        v = self.sol.model().eval(term, model_completion=True).as_long()
        if len(excl) > self.ex.max_split:
            raise EncodingError("value split of %s exceeds %d values" % (term, self.ex.max_split))
        self.ex.work.append(self.taken + [("excl", tuple(excl) + (v,))])
        self.pos += 1
        self.taken.append(("val", v))
        self.assume(term == v)
        self.known[key] = v
        return v


class Explorer:
    def __init__(self, base_pc=(), timeout_ms=20000, max_split=64, max_paths=20000):
        self.base_pc = list(base_pc)
        self.work = [[]]
        self.inconclusive = []
        self.timeout_ms = timeout_ms
        self.max_split = max_split
        self.max_paths = max_paths
        self.npaths = 0

    def paths(self, runner):
        """yields (ctx, outcome) for every feasible path; outcome = ('ret', v) | ('exc', name)"""
        while self.work:
            prefix = self.work.pop()
            ctx = Ctx(self, prefix, self.base_pc)
            try:
                try:
                    v = runner(ctx)
                    out = ("ret", v)
                except PyRaise as e:
                    out = ("exc", e.name)
            except Infeasible:
                continue
            self.npaths += 1
            if self.npaths > self.max_paths:
                raise EncodingError("path explosion")
            yield ctx, out


# ----------------------------------------------------------------- interpreter
class Interp:
    def __init__(self, namespace):
        """namespace: name -> python function / class whose source is to be interpreted"""
        self.defs = {}
        for name, obj in namespace.items():
            src = textwrap.dedent(inspect.getsource(obj))
            node = ast.parse(src).body[0]
            self.defs[name] = node
        self.classes = {n: d for n, d in self.defs.items() if isinstance(d, ast.ClassDef)}
        self.methods = {}
        self.props = {}
        for cn, cd in self.classes.items():
            for item in cd.body:
                if isinstance(item, ast.FunctionDef):
                    isprop = any(isinstance(d, ast.Name) and d.id == "property" for d in item.decorator_list)
                    (self.props if isprop else self.methods)[(cn, item.name)] = item
        self.globals = {}
        # module-level numeric / string constants of the real module(s) the encoded objects live in (read from the
        # imported module, so `_EPS = sys.float_info.epsilon` has the value the real code sees)
        self.module_consts = {}
        for obj in namespace.values():
            g = getattr(obj, "__globals__", None)
            if g is None:
                mod = sys.modules.get(getattr(obj, "__module__", ""))
                g = vars(mod) if mod is not None else {}
            for k, v in g.items():
                if isinstance(v, (bool, int, float, str)) and not k.startswith("__"):
                    self.module_consts.setdefault(k, F(v) if isinstance(v, float) else v)

    # -- calling
    def call_function(self, ctx, name, args, kwargs=None):
        fd = self.defs[name]
        return self._invoke(ctx, fd, list(args), kwargs or {})

    def new(self, ctx, cls, *args, **kwargs):
        rec = Rec(cls)
        if (cls, "__init__") in self.methods:
            self._invoke(ctx, self.methods[(cls, "__init__")], [rec] + list(args), kwargs)
        return rec

    def call_method(self, ctx, rec, mname, args, kwargs=None):
        fd = self.methods[(rec.cls, mname)]
        return self._invoke(ctx, fd, [rec] + list(args), kwargs or {})

    def _invoke(self, ctx, fd, args, kwargs):
        env = {}
        a = fd.args
        params = [x.arg for x in a.args]
        defaults = a.defaults
        for i, p in enumerate(params):
            if i < len(args):
                env[p] = args[i]
            elif p in kwargs:
                env[p] = kwargs[p]
            else:
                di = i - (len(params) - len(defaults))
                if di < 0:
                    raise EncodingError("missing argument %s" % p)
                env[p] = self.ev(ctx, {}, defaults[di])
        if a.vararg:
            env[a.vararg.arg] = tuple(args[len(params):])
        for ko, kd in zip(a.kwonlyargs, a.kw_defaults):
            env[ko.arg] = kwargs[ko.arg] if ko.arg in kwargs else (self.ev(ctx, {}, kd) if kd is not None else None)
        if a.kwarg:
            env[a.kwarg.arg] = {k: v for k, v in kwargs.items() if k not in env}
        try:
            self.block(ctx, env, fd.body)
        except _Return as r:
            return r.v
        return None

    # -- statements
    def block(self, ctx, env, stmts):
        for s in stmts:
            self.stmt(ctx, env, s)

    def stmt(self, ctx, env, s):
        if isinstance(s, ast.Expr):
            if isinstance(s.value, ast.Constant):
                return
            self.ev(ctx, env, s.value)
        elif isinstance(s, ast.Assign):
            v = self.ev(ctx, env, s.value)
            for t in s.targets:
                self.assign(ctx, env, t, v)
        elif isinstance(s, ast.AugAssign):
            cur = self.ev(ctx, env, self._load(s.target))
            v = self.binop(ctx, s.op, cur, self.ev(ctx, env, s.value))
            self.assign(ctx, env, s.target, v)
        elif isinstance(s, ast.Return):
            raise _Return(self.ev(ctx, env, s.value) if s.value is not None else None)
        elif isinstance(s, ast.If):
            c = self.truth(ctx, self.ev(ctx, env, s.test))
            self.block(ctx, env, s.body if c else s.orelse)
        elif isinstance(s, ast.Raise):
            name = "Exception"
            if s.exc is not None:
                n = s.exc.func if isinstance(s.exc, ast.Call) else s.exc
                name = n.id if isinstance(n, ast.Name) else getattr(n, "attr", "Exception")
            raise PyRaise(name)
        elif isinstance(s, ast.For):
            it = self.ev(ctx, env, s.iter)
            if isinstance(it, Vec):
                it = it.items
            if not isinstance(it, (list, tuple, range)):
                raise EncodingError("for over non-concrete iterable")
            for x in it:
                self.assign(ctx, env, s.target, x)
                self.block(ctx, env, s.body)
        elif isinstance(s, ast.Pass):
            return
        else:
            raise EncodingError("unsupported statement %s" % type(s).__name__)

    @staticmethod
    def _load(t):
        import copy

        t = copy.copy(t)
        t.ctx = ast.Load()
        return t

    def assign(self, ctx, env, t, v):
        if isinstance(t, ast.Name):
            env[t.id] = v
        elif isinstance(t, (ast.Tuple, ast.List)):
            if not isinstance(v, (tuple, list)) or len(v) != len(t.elts):
                raise EncodingError("bad unpacking")
            for tt, vv in zip(t.elts, v):
                self.assign(ctx, env, tt, vv)
        elif isinstance(t, ast.Attribute):
            o = self.ev(ctx, env, t.value)
            if not isinstance(o, Rec):
                raise EncodingError("attribute store on non-record")
            o.f[t.attr] = v
        elif isinstance(t, ast.Subscript):
            o = self.ev(ctx, env, t.value)
            k = self.ev(ctx, env, t.slice)
            if isinstance(o, (dict, list)):
                o[k] = v
            else:
                raise EncodingError("subscript store")
        else:
            raise EncodingError("unsupported assignment target")

    # -- truthiness
    def truth(self, ctx, v):
        if isinstance(v, bool):
            return v
        if v is None:
            return False
        if is_bool_term(v):
            return ctx.branch(v)
        if is_fp(v):
            return not ctx.branch(z3.fpIsZero(v))
        if isinstance(v, Vec):
            if len(v) != 1:
                raise PyRaise("ValueError")
            return self.truth(ctx, v.items[0])
        if isinstance(v, (int, F)):
            return v != 0
        if is_z3(v):
            return ctx.branch(v != 0)
        if isinstance(v, (list, tuple, dict, str)):
            return len(v) > 0
        if isinstance(v, Out):
            return any((not isinstance(p_, str)) or p_ for p_ in v.parts)     # rendered pieces are never empty
        if isinstance(v, (Sci, Fixed, Suffix, Mant, ExpStr, Digits)):
            return True
        if isinstance(v, Rec):
            return True
        raise EncodingError("truth of %r" % (v,))

    # -- expressions
    def ev(self, ctx, env, e):
        m = getattr(self, "e_" + type(e).__name__, None)
        if m is None:
            raise EncodingError("unsupported expression %s" % type(e).__name__)
        return m(ctx, env, e)

    def e_Constant(self, ctx, env, e):
        v = e.value
        if isinstance(v, float):
            return F(v)
        return v

    def e_Name(self, ctx, env, e):
        if e.id in env:
            return env[e.id]
        if e.id in self.globals:
            return self.globals[e.id]
        if e.id in ("None", "True", "False"):
            return {"None": None, "True": True, "False": False}[e.id]
        if e.id in self.classes or e.id in BUILTINS or e.id in self.defs:
            return ("callable", e.id)
        if e.id in MODULES:
            return ("module", e.id)
        if e.id in self.module_consts:
            return self.module_consts[e.id]
        raise EncodingError("unknown name %s" % e.id)

    def e_Tuple(self, ctx, env, e):
        return tuple(self.ev(ctx, env, x) for x in e.elts)

    def e_List(self, ctx, env, e):
        return [self.ev(ctx, env, x) for x in e.elts]

    def e_Dict(self, ctx, env, e):
        return {self.ev(ctx, env, k): self.ev(ctx, env, v) for k, v in zip(e.keys, e.values)}

    def e_Attribute(self, ctx, env, e):
        if isinstance(e.value, ast.Name) and e.value.id in ("np", "numpy", "math") and e.value.id not in env:
            if e.attr == "inf":
                return INF
            return ("callable", e.value.id + "." + e.attr)
        o = self.ev(ctx, env, e.value)
        if isinstance(o, tuple) and o and o[0] == "module":
            dotted = o[1] + "." + e.attr
            if dotted in BUILTINS:
                return ("callable", dotted)
            return ("module", dotted)
        if isinstance(o, str) and e.attr == "format":
            return ("strformat", o)
        if isinstance(o, Rec):
            if e.attr in o.f:
                return o.f[e.attr]
            if (o.cls, e.attr) in self.props:
                return self._invoke(ctx, self.props[(o.cls, e.attr)], [o], {})
            if (o.cls, e.attr) in self.methods:
                return ("method", o, e.attr)
            raise PyRaise("AttributeError")
        if isinstance(o, list) and e.attr == "append":
            return ("append", o)
        if isinstance(o, Vec):
            if e.attr == "size":
                return len(o)
            if e.attr == "shape":
                return (len(o),)
            if e.attr in ("sum", "mean", "tolist", "dot", "var", "std", "copy", "astype"):
                return ("pyfunc", lambda ctx_, *a, **k: vec_method(self, ctx_, o, e.attr, a, k))
            raise EncodingError("array attribute %s" % e.attr)
        if isinstance(o, (Sci, Mant)) and e.attr in ("split", "replace"):
            return ("strmeth", o, e.attr)
        if isinstance(o, dict) and e.attr in ("items", "values", "keys"):
            return ("dictmeth", o, e.attr)
        if isinstance(o, dict) and e.attr in ("clear", "copy", "get", "pop", "update"):
            return ("pyfunc", lambda ctx_, *a, **k: getattr(o, e.attr)(*a, **k))
        if isinstance(o, Mat) and e.attr == "shape":
            return o.shape
        raise EncodingError("attribute %s of %r" % (e.attr, type(o).__name__))

    def e_Subscript(self, ctx, env, e):
        o = self.ev(ctx, env, e.value)
        k = self.ev(ctx, env, e.slice)
        if isinstance(k, tuple) and isinstance(o, dict):
            return o[k]
        if is_z3(k):
            k = ctx.pick(k)
        return o[k]

    def e_UnaryOp(self, ctx, env, e):
        v = self.ev(ctx, env, e.operand)
        if isinstance(e.op, ast.USub):
            if isinstance(v, SymReal):
                return SymReal(-v.t, v.dec, -v.sign)
            if isinstance(v, Vec):
                return Vec([z3.fpNeg(x) if is_fp(x) else -x for x in v.items])
            if is_fp(v):
                return z3.fpNeg(v)
            return -v
        if isinstance(e.op, ast.Not):
            if is_bool_term(v):
                return z3.Not(v)
            return not self.truth(ctx, v)
        if isinstance(e.op, ast.UAdd):
            return v
        raise EncodingError("unary op")

    def e_BoolOp(self, ctx, env, e):
        isand = isinstance(e.op, ast.And)
        terms = []
        for x in e.values:
            v = self.ev(ctx, env, x)
            if is_bool_term(v):
                terms.append(v)
                continue
            t = self.truth(ctx, v)
            if isand and not t:
                return False if not terms else z3.And(*terms, z3.BoolVal(False))
            if not isand and t:
                return True if not terms else z3.Or(*terms, z3.BoolVal(True))
        if not terms:
            return isand
        return (z3.And if isand else z3.Or)(*terms) if len(terms) > 1 else terms[0]

    def e_IfExp(self, ctx, env, e):
        c = self.truth(ctx, self.ev(ctx, env, e.test))
        return self.ev(ctx, env, e.body if c else e.orelse)

    def e_BinOp(self, ctx, env, e):
        if isinstance(e.op, ast.Pow):
            base = self.ev(ctx, env, e.left)
            ex = self.ev(ctx, env, e.right)
            return self.power(ctx, base, ex)
        return self.binop(ctx, e.op, self.ev(ctx, env, e.left), self.ev(ctx, env, e.right))

    def power(self, ctx, base, ex):
        if isinstance(base, Vec) or isinstance(ex, Vec):
            return self.vec_binop(ctx, ast.Pow(), base, ex)
        if is_fp(base):
            # x ** 2 is modelled as the correctly rounded product x * x (numpy's square fast path is exactly
            # that; C pow() is within 1 ulp of it), x ** 0.5 as the correctly rounded square root
            if isinstance(ex, F) and ex.denominator == 1:
                ex = int(ex)
            if isinstance(ex, int) and not isinstance(ex, bool) and 1 <= ex <= 4:
                out = base
                for _ in range(ex - 1):
                    out = z3.fpMul(RM, out, base)
                return out
            if isinstance(ex, F) and ex == F(1, 2):
                if ctx.branch(z3.And(z3.fpIsNegative(base), z3.Not(z3.fpIsZero(base)))):
                    raise PyRaise("ComplexResult")
                return z3.fpSqrt(RM, base)
            raise EncodingError("unsupported floating-point power")
        if isinstance(ex, F) and ex == F(1, 2):
            # v ** 0.5 over the reals: fresh s >= 0 with s*s == v (v >= 0 is a path fact)
            if base is INF:
                return INF
            v = to_term(num(base))
            if not ctx.branch(v >= 0):
                raise PyRaise("ComplexResult")
            s = ctx.fresh("sqrt", "real")
            ctx.assume(s >= 0)
            ctx.assume(s * s == v)
            return s
        if isinstance(base, F) and base.denominator == 1:
            base = int(base)
        if isinstance(base, int) and not isinstance(base, bool):
            k = ctx.pick(ex) if is_z3(ex) else ex
            if not isinstance(k, int):
                raise EncodingError("non-integer exponent")
            return F(base) ** k if k < 0 else base ** k
        if isinstance(ex, int):
            v = num(base)
            out = 1
            for _ in range(ex):
                out = out * v
            return out
        raise EncodingError("unsupported power")

    def vec_binop(self, ctx, op, l, r):
        n = len(l) if isinstance(l, Vec) else len(r)
        if isinstance(l, Vec) and isinstance(r, Vec) and len(l) != len(r):
            raise PyRaise("ValueError")
        ls = l.items if isinstance(l, Vec) else [l] * n
        rs = r.items if isinstance(r, Vec) else [r] * n
        if isinstance(op, ast.Pow):
            return Vec([self.power(ctx, a, b) for a, b in zip(ls, rs)])
        return Vec([self.binop(ctx, op, a, b) for a, b in zip(ls, rs)])

    def fp_binop(self, ctx, op, l, r):
        sort = fp_sort_of(l, r)
        a, b = fp_const(l, sort), fp_const(r, sort)
        if isinstance(op, ast.Add):
            return z3.fpAdd(RM, a, b)
        if isinstance(op, ast.Sub):
            return z3.fpSub(RM, a, b)
        if isinstance(op, ast.Mult):
            return z3.fpMul(RM, a, b)
        if isinstance(op, ast.Div):
            if is_fp(r):
                if ctx.branch(z3.fpIsZero(b)):
                    raise PyRaise("ZeroDivisionError")
            elif num(r) == 0:
                raise PyRaise("ZeroDivisionError")
            return z3.fpDiv(RM, a, b)
        raise EncodingError("unsupported floating-point operator %s" % type(op).__name__)

    def binop(self, ctx, op, l, r):
        if isinstance(l, Vec) or isinstance(r, Vec):
            return self.vec_binop(ctx, op, l, r)
        if isinstance(op, ast.Pow):
            return self.power(ctx, l, r)
        if is_fp(l) or is_fp(r):
            return self.fp_binop(ctx, op, l, r)
        if isinstance(op, ast.Div):
            if isinstance(l, SymReal):
                # division by an exact power of ten shifts the decade
                k = None
                if isinstance(r, (int, F)):
                    fr = F(r)
                    kk = 0
                    while fr > 1 and fr.denominator == 1 and fr % 10 == 0:
                        fr /= 10
                        kk += 1
                    while fr < 1 and fr.numerator == 1 and fr.denominator % 10 == 0:
                        fr *= 10
                        kk -= 1
                    if fr == 1:
                        k = kk
                if k is None:
                    raise EncodingError("SymReal divided by a non power of ten")
                return SymReal(l.t / p10(k), l.dec - k, l.sign)
            if is_int_like(l) and is_int_like(r):
                if isinstance(l, int) and isinstance(r, int):
                    if r == 0:
                        raise PyRaise("ZeroDivisionError")
                    return Quot(l, r)
                return Quot(l, r)
            lv, rv = num(l), num(r)
            if isinstance(rv, (int, F)):
                if rv == 0:
                    raise PyRaise("ZeroDivisionError")
                if isinstance(lv, (int, F)):
                    return F(lv) / F(rv)
            elif not ctx.branch(to_term(rv) != 0):
                raise PyRaise("ZeroDivisionError")
            return to_real(lv) / to_real(rv)
        if isinstance(op, ast.Mult) and (isinstance(l, SymReal) != isinstance(r, SymReal)):
            sr, c = (l, r) if isinstance(l, SymReal) else (r, l)
            if isinstance(c, (int, F)) and c > 0:
                fr, kk = F(c), 0
                while fr >= 10 and fr % 10 == 0:
                    fr /= 10
                    kk += 1
                while fr < 1 and fr.numerator == 1 and fr.denominator % 10 == 0:
                    fr *= 10
                    kk -= 1
                if fr == 1:
                    out = SymReal(sr.t * p10(kk), sr.dec + kk, sr.sign)
                    if getattr(sr, "dec_digits", None) is not None:
                        out.dec_digits = sr.dec_digits
                        # 10 ** k is an int for k >= 0 and C pow(10.0, k) for k < 0: the host computes the same
                        out.fpops = sr.fpops + [("mul", float(10 ** kk))]
                    return out
            raise EncodingError("SymReal multiplied by something that is not a power of ten")
        l, r = num(l), num(r)
        if isinstance(op, ast.Add):
            return arith(l, r, lambda a, b: a + b)
        if isinstance(op, ast.Sub):
            return arith(l, r, lambda a, b: a - b)
        if isinstance(op, ast.Mult):
            return arith(l, r, lambda a, b: a * b)
        if isinstance(op, (ast.FloorDiv, ast.Mod)):
            if not (is_int_like(l) and is_int_like(r)):
                raise EncodingError("// or % on non-integers")
            if isinstance(l, int) and isinstance(r, int):
                if r == 0:
                    raise PyRaise("ZeroDivisionError")
                return l // r if isinstance(op, ast.FloorDiv) else l % r
            if not ctx.branch(to_term(r) > 0):
                raise EncodingError("non-positive symbolic divisor")
            a, b = to_term(l), to_term(r)
            return a / b if isinstance(op, ast.FloorDiv) else a % b
        raise EncodingError("unsupported operator %s" % type(op).__name__)

    def e_Compare(self, ctx, env, e):
        left = self.ev(ctx, env, e.left)
        terms = []
        for op, comp in zip(e.ops, e.comparators):
            right = self.ev(ctx, env, comp)
            terms.append(self.compare(ctx, op, left, right))
            left = right
        if all(isinstance(t, bool) for t in terms):
            return all(terms)
        ts = [t if is_z3(t) else z3.BoolVal(t) for t in terms]
        return z3.And(*ts) if len(ts) > 1 else ts[0]

    def compare(self, ctx, op, l, r):
        if isinstance(op, (ast.Is, ast.IsNot)):
            if l is None or r is None or isinstance(l, bool) or isinstance(r, bool):
                same = l is r
            else:
                raise EncodingError("`is` on values")
            return same if isinstance(op, ast.Is) else not same
        if isinstance(op, (ast.In, ast.NotIn)):
            if isinstance(r, dict):
                if is_z3(l):
                    raise EncodingError("symbolic dict key")
                return (l in r) if isinstance(op, ast.In) else (l not in r)
            if not isinstance(r, (tuple, list)):
                raise EncodingError("`in` on non-tuple")
            if is_z3(l):
                t = z3.Or(*[l == to_term(c) for c in r]) if r else z3.BoolVal(False)
                return t if isinstance(op, ast.In) else z3.Not(t)
            res = any(l == c for c in r)
            return res if isinstance(op, ast.In) else not res
        if l is INF or r is INF:
            # x < inf is true for finite x; inf < x false
            if isinstance(op, ast.Lt):
                return (l is not INF) and (r is INF)
            if isinstance(op, ast.Gt):
                return (l is INF) and (r is not INF)
            raise EncodingError("comparison with inf")
        if l is None or r is None or isinstance(l, str) or isinstance(r, str):
            if isinstance(op, ast.Eq):
                return l == r
            if isinstance(op, ast.NotEq):
                return l != r
            raise EncodingError("ordering on None/str")
        if is_fp(l) or is_fp(r):
            sort = fp_sort_of(l, r)
            a, b = fp_const(l, sort), fp_const(r, sort)
            return {ast.Eq: z3.fpEQ(a, b), ast.NotEq: z3.Not(z3.fpEQ(a, b)), ast.Lt: z3.fpLT(a, b),
                    ast.LtE: z3.fpLEQ(a, b), ast.Gt: z3.fpGT(a, b), ast.GtE: z3.fpGEQ(a, b)}[type(op)]
        l, r = num(l), num(r)
        if not is_z3(l) and not is_z3(r):
            return {ast.Eq: l == r, ast.NotEq: l != r, ast.Lt: l < r, ast.LtE: l <= r,
                    ast.Gt: l > r, ast.GtE: l >= r}[type(op)]
        a, b = to_term(l), to_term(r)
        if z3.is_real(a) != z3.is_real(b):
            a, b = to_real(a), to_real(b)
        return {ast.Eq: a == b, ast.NotEq: a != b, ast.Lt: a < b, ast.LtE: a <= b,
                ast.Gt: a > b, ast.GtE: a >= b}[type(op)]

    def e_Call(self, ctx, env, e):
        f = self.ev(ctx, env, e.func)
        args = [self.ev(ctx, env, a) for a in e.args]
        kwargs = {k.arg: self.ev(ctx, env, k.value) for k in e.keywords}
        if isinstance(f, tuple):
            kind = f[0]
            if kind == "method":
                return self.call_method(ctx, f[1], f[2], args, kwargs)
            if kind == "append":
                f[1].append(args[0])
                return None
            if kind == "dictmeth":
                return list(getattr(f[1], f[2])())
            if kind == "strmeth":
                return self.strmeth(f[1], f[2], args)
            if kind == "strformat":
                if any(is_z3(a) for a in args):
                    raise EncodingError("str.format of a symbolic value")
                return f[1].format(*args, **kwargs)
            if kind == "pyfunc":
                return f[1](ctx, *args, **kwargs)
            if kind == "callable":
                name = f[1]
                if name in self.classes:
                    return self.new(ctx, name, *args, **kwargs)
                if name in self.defs:
                    return self.call_function(ctx, name, args, kwargs)
                return BUILTINS[name](self, ctx, *args, **kwargs) if kwargs else BUILTINS[name](self, ctx, *args)
        raise EncodingError("call of %r" % (f,))

    def strmeth(self, o, meth, args):
        if meth == "split" and isinstance(o, Sci) and args == ["e"]:
            return [Mant(o), ExpStr(o.exp)]
        if meth == "replace" and isinstance(o, Mant) and args == [".", ""]:
            return Digits(o.sci.digits, o.sci.p + 1)
        raise EncodingError("string method %s" % meth)

    # -- f-strings (the C20 kernel)
    def e_JoinedStr(self, ctx, env, e):
        parts = []
        for v in e.values:
            if isinstance(v, ast.Constant):
                parts.append(v.value)
                continue
            val = self.ev(ctx, env, v.value)
            spec = ""
            if v.format_spec is not None:
                for sv in v.format_spec.values:
                    if isinstance(sv, ast.Constant):
                        spec += sv.value
                    else:
                        spec += str(ctx.pick(self.ev(ctx, env, sv.value)))
            parts.append(self.fmt(ctx, val, spec) if spec else val)
        if len(parts) == 1 and not isinstance(parts[0], str):
            return parts[0]
        return Out(parts)

    def fmt(self, ctx, v, spec):
        if spec.endswith("e"):
            p = 6 if spec == "e" else int(spec[1:-1])
            if not isinstance(v, SymReal):
                raise EncodingError("scientific format of a value without decade information")
            m = ctx.fresh("m")
            sc = v.absterm() * p10(p - v.dec)
            ctx.assume(z3.ToReal(m) - F(1, 2) <= sc)
            ctx.assume(sc <= z3.ToReal(m) + F(1, 2))
            top = 10 ** (p + 1)
            return Sci(z3.If(m == top, z3.IntVal(10 ** p), m),
                       z3.If(m == top, z3.IntVal(v.dec + 1), z3.IntVal(v.dec)), v.sign, p)
        if spec.endswith("f"):
            d = int(spec[1:-1])
            if d < 0:
                raise PyRaise("ValueError")
            if not isinstance(v, SymReal):
                raise EncodingError("fixed format of a value without sign information")
            n = ctx.fresh("n")
            sc = v.absterm() * p10(d)
            ctx.assume(z3.ToReal(n) - F(1, 2) <= sc)
            ctx.assume(sc <= z3.ToReal(n) + F(1, 2))
            return Fixed(n, d, v.sign)
        if spec == "+03d":
            return Suffix(v)
        raise EncodingError("format spec %r" % spec)


# ----------------------------------------------------------------- helpers
def is_int_like(v):
    if isinstance(v, bool):
        return True
    if isinstance(v, int):
        return True
    return is_z3(v) and z3.is_int(v)


def num(v):
    """value usable in arithmetic"""
    if isinstance(v, bool):
        return int(v)
    if isinstance(v, Quot):
        a, b = v.a, v.b
        if isinstance(a, int) and isinstance(b, int):
            return F(a, b)
        return to_real(a) / to_real(b)
    if isinstance(v, SymReal):
        return v.t
    if is_bool_term(v):
        return z3.If(v, 1, 0)
    if isinstance(v, (int, F)) or is_z3(v):
        return v
    if isinstance(v, float):
        return F(v)
    raise EncodingError("not a number: %r" % (v,))


def to_real(v):
    if isinstance(v, (int, F)):
        return z3.RealVal(F(v))
    if z3.is_int(v):
        return z3.ToReal(v)
    return v


def arith(l, r, f):
    if not is_z3(l) and not is_z3(r):
        return f(l, r)
    a, b = to_term(l), to_term(r)
    if z3.is_real(a) != z3.is_real(b):
        a, b = to_real(a), to_real(b)
    return f(a, b)


def b_float(I, ctx, v):
    """float("d.dddddd") of the mantissa string of a '%e' rendering: the value rounded to p+1 significant
    figures, a real in [1, 10) (or 0) with the sign of the original"""
    if isinstance(v, Mant):
        sci = v.sci
        t = z3.ToReal(sci.digits) / p10(sci.p)
        return SymReal(t if sci.sign > 0 else -t, 0, sci.sign)
    if isinstance(v, Sci):
        # float("d.dde+XX"): the decimal value exactly (over the reals); the digits are remembered so that a later
        # int() of a product can be evaluated with binary64 rounding (see b_int)
        ex = ctx.pick(v.exp) if is_z3(v.exp) else v.exp
        t = z3.ToReal(v.digits) * p10(ex - v.p)
        out = SymReal(t if v.sign > 0 else -t, ex, v.sign)
        out.dec_digits = (v.digits, v.p, ex)
        out.fpops = []
        return out
    if isinstance(v, (int, F)):
        return F(v)
    if isinstance(v, SymReal) or is_real(v) or is_fp(v):
        return v
    raise EncodingError("float() of %r" % (v,))


def b_int(I, ctx, v):
    if isinstance(v, SymReal) and getattr(v, "dec_digits", None) is not None:
        # int(float("<digits>e<exp>") * 10**k ...) is a binary64 computation (the product can fall just below the
        # integer the real arithmetic gives, and int() truncates)
        digits, p, ex = v.dec_digits
        if p > 3:
            raise EncodingError("decimal literal with more than 4 significant digits")
        # the literal has only 9 * 10**p possible digit strings: the binary64 computation is done by the host for each
        # (float() of the literal, the recorded multiplications, int()), the solver gets the table
        out = ctx.fresh("trunc")
        rows = []
        for D in range(10 ** p, 10 ** (p + 1)):
            sD = str(D)
            val = float("%s.%se%d" % (sD[0], sD[1:] or "0", ex))
            for op, c in v.fpops:
                val = val * c
            if v.sign < 0:
                val = -val
            rows.append(z3.And(digits == D, out == int(val)))
        ctx.assume(z3.Or(*rows))
        return out
    if isinstance(v, ExpStr):
        return v.e
    if isinstance(v, bool):
        return int(v)
    if is_bool_term(v):
        return z3.If(v, 1, 0)
    if is_int_like(v):
        return v
    raise EncodingError("int() of %r" % (v,))


def b_minmax(ismin):
    def f(I, ctx, *a):
        if len(a) == 1:
            a = tuple(a[0])
        if any(is_fp(x) for x in a):
            sort = fp_sort_of(*a)
            out = fp_const(a[0], sort)
            for x in a[1:]:
                x = fp_const(x, sort)
                out = z3.If(z3.fpLEQ(out, x), out, x) if ismin else z3.If(z3.fpGEQ(out, x), out, x)
            return out
        if len(a) == 2 and sum(isinstance(x, SymReal) for x in a) == 1:
            s_, c_ = (a[0], a[1]) if isinstance(a[0], SymReal) else (a[1], a[0])
            c_ = num(c_)
            if not is_z3(c_):
                c_ = F(c_)
                takes_s = ctx.branch((s_.t <= c_) if ismin else (s_.t >= c_))
                if takes_s:
                    return s_
                if c_ == 0:
                    return c_
                dec = 0
                while F(10) ** dec > abs(c_):
                    dec -= 1
                while F(10) ** (dec + 1) <= abs(c_):
                    dec += 1
                return SymReal(z3.RealVal(str(c_)), dec, 1 if c_ > 0 else -1)
        out = num(a[0])
        for x in a[1:]:
            x = num(x)
            if not is_z3(out) and not is_z3(x):
                out = min(out, x) if ismin else max(out, x)
            else:
                o, y = to_term(out), to_term(x)
                out = z3.If(o <= y, o, y) if ismin else z3.If(o >= y, o, y)
        return out
    return f


def b_abs(I, ctx, v):
    if isinstance(v, SymReal):
        return SymReal(v.absterm(), v.dec, +1)
    if is_fp(v):
        return z3.fpAbs(v)
    v = num(v)
    if not is_z3(v):
        return abs(v)
    return z3.If(v >= 0, v, -v)


def b_round(I, ctx, v, nd=None):
    """round(x, nd) over the reals: the nearest multiple of 10**-nd (either neighbour on a tie - binary ties do not
    follow the decimal rule anyway)"""
    if nd is None:
        nd = 0
    if is_z3(nd):
        nd = ctx.pick(nd)
    if not isinstance(nd, int):
        raise EncodingError("round() with non-integer digits")
    if isinstance(v, (int, F)) and not isinstance(v, bool):
        return F(round(F(v), nd))
    t = v.t if isinstance(v, SymReal) else to_real(to_term(num(v)))
    n = ctx.fresh("rnd")
    sc = t * p10(nd)
    ctx.assume(z3.ToReal(n) - F(1, 2) <= sc)
    ctx.assume(sc <= z3.ToReal(n) + F(1, 2))
    return z3.ToReal(n) / p10(nd)


def b_isinstance(I, ctx, v, t):
    name = t[1] if isinstance(t, tuple) else t
    if name == "int":
        return is_int_like(v)
    if name in ("np.ndarray", "numpy.ndarray", "ndarray"):
        # the kernels feed chunks as Python lists unless a Vec / Mat model of an ndarray is passed explicitly
        return isinstance(v, (Vec, Mat))
    if name in ("list", "tuple") and isinstance(v, (list, tuple)):
        return isinstance(v, list if name == "list" else tuple)
    raise EncodingError("isinstance(%r)" % (name,))


def b_divmod(I, ctx, a, b):
    if isinstance(a, int) and isinstance(b, int):
        if b == 0:
            raise PyRaise("ZeroDivisionError")
        return divmod(a, b)
    if not ctx.branch(to_term(b) > 0):
        raise EncodingError("divmod by a non-positive symbolic divisor")
    return (to_term(a) / to_term(b), to_term(a) % to_term(b))


def b_ceil(I, ctx, q):
    """math.ceil(a / b) for integers, b > 0:  -((-a) div b)   (exact while a*b < 2**52)"""
    if isinstance(q, Quot):
        a, b = q.a, q.b
        if isinstance(a, int) and isinstance(b, int):
            return -((-a) // b)
        if not ctx.branch(to_term(b) > 0):
            raise EncodingError("ceil of a quotient with non-positive divisor")
        return -((-to_term(a)) / to_term(b))
    if is_int_like(q):
        return q
    raise EncodingError("math.ceil of a non-quotient")


def b_len(I, ctx, v):
    return len(v)


def seq_sum(I, ctx, items, start=0):
    out = start
    for i, x in enumerate(items):
        # numpy starts its accumulator with the first element (0.0 + x is exact anyway)
        out = x if (i == 0 and start == 0 and is_fp(x)) else I.binop(ctx, ast.Add(), out, x)
    return out


def vec_method(I, ctx, v, name, a, k):
    if name == "sum":
        if not v.items:
            return F(0)
        return seq_sum(I, ctx, v.items)
    if name == "mean":
        if not v.items:
            raise EncodingError("mean of an empty array")
        return I.binop(ctx, ast.Div(), seq_sum(I, ctx, v.items), len(v))
    if name == "tolist":
        return list(v.items)
    if name in ("copy", "astype"):
        return Vec(v.items)
    if name == "dot":
        (w,) = a
        return seq_sum(I, ctx, [I.binop(ctx, ast.Mult(), x, y) for x, y in zip(v.items, w.items)])
    if name in ("var", "std"):
        # numpy: mean of squared deviations from the mean (two passes)
        m = vec_method(I, ctx, v, "mean", (), {})
        d = [I.binop(ctx, ast.Sub(), x, m) for x in v.items]
        var = I.binop(ctx, ast.Div(), seq_sum(I, ctx, [I.binop(ctx, ast.Mult(), x, x) for x in d]),
                      len(v) - int(k.get("ddof", 0)))
        return var if name == "var" else I.power(ctx, var, F(1, 2))
    raise EncodingError("array method %s" % name)


def b_asarray(I, ctx, v, dtype=None, **k):
    if isinstance(v, Vec):
        return Vec(v.items)
    if isinstance(v, (list, tuple)):
        return Vec(v)
    raise EncodingError("np.asarray of %r" % type(v).__name__)


def b_np1(name):
    def f(I, ctx, v, *a, **k):
        if not isinstance(v, Vec):
            v = b_asarray(I, ctx, v)
        if name == "square":
            return Vec([I.binop(ctx, ast.Mult(), x, x) for x in v.items])
        return vec_method(I, ctx, v, name, a, k)
    return f


def b_range(I, ctx, *a):
    a = [ctx.pick(x) if is_z3(x) else x for x in a]
    return range(*a)


MODULES = {"os", "math", "np", "numpy"}

BUILTINS = {
    "os.path.join": lambda I, ctx, *a: ("path",) + tuple(a),
    "float": b_float, "int": b_int, "min": b_minmax(True), "max": b_minmax(False), "abs": b_abs,
    "isinstance": b_isinstance, "round": b_round, "divmod": b_divmod, "math.ceil": b_ceil, "len": b_len,
    "np.empty": lambda I, ctx, shape, **k: Mat(shape if isinstance(shape, tuple) else (shape,)),
    "np.zeros": lambda I, ctx, shape, **k: Mat(shape, {(i, j): F(0) for i in range(shape[0]) for j in range(shape[1])})
    if isinstance(shape, tuple) and len(shape) == 2 else Vec([F(0)] * (shape if isinstance(shape, int) else shape[0])),
    "np.asarray": b_asarray, "np.array": b_asarray, "np.fromiter": b_asarray, "np.sum": b_np1("sum"),
    "np.mean": b_np1("mean"), "np.square": b_np1("square"), "np.dot": lambda I, ctx, a, b: vec_method(I, ctx, a, "dot", (b,), {}),
    "np.var": b_np1("var"), "np.std": b_np1("std"), "sum": lambda I, ctx, v, start=0: seq_sum(I, ctx, list(v), start),
    "range": b_range, "zip": lambda I, ctx, *a: list(zip(*a)), "enumerate": lambda I, ctx, a: list(enumerate(a)), "tuple": lambda I, ctx, v=(): tuple(v), "list": lambda I, ctx, v=(): list(v),
}
