"""dev helper: python -m vf.try <module> <cond> [timeout] [reach]"""
import json, os, subprocess, sys, tempfile
mod, cond = sys.argv[1:3]
t = sys.argv[3] if len(sys.argv) > 3 else "60"
env = dict(os.environ, VF_REACH="1" if len(sys.argv) > 4 else "0", PYTHONWARNINGS="ignore")
out = tempfile.mktemp(suffix=".json")
subprocess.run([sys.executable, "-m", "vf.ch_worker", mod, cond, t, out], env=env)
r = json.load(open(out)); os.unlink(out)
print(cond, "wall", r.get("wall"), "paths", r.get("paths"), "z3q", r.get("z3_queries"), "z3s", r.get("z3_seconds"))
if not r.get("ok"): print(r["error"])
for m in r.get("messages", []):
    print(" ", m["state"], m["message"][:400], m["args"])
    if m["state"] != "CONFIRMED" and m.get("traceback"): print(m["traceback"][-1200:])
