"""Shared helpers for harnesses and drivers."""
import dataclasses
import hashlib
import inspect
import json
import os
import time
from typing import Callable, Dict, List, Optional

VERIF = os.path.dirname(os.path.dirname(os.path.abspath(__file__)))
# VF_EVIDENCE_DIR: development only (tools/seed_rerun.py evaluates seeded changes without touching the evidence
# of the real tree); the registered commands never set it
EVIDENCE_DIR = os.environ.get("VF_EVIDENCE_DIR") or os.path.join(VERIF, "evidence")
REPLAY_DIR = os.path.join(EVIDENCE_DIR, "replays")
KNOWN_FINDINGS = os.path.join(VERIF, "known_findings.jsonl")

EXIT_OK, EXIT_VIOLATION, EXIT_HARNESS = 0, 1, 2


class HarnessError(Exception):
    """The machinery (stub, oracle, encoding) is wrong: no verdict is given."""


def concretize(v, lo, hi):
    """Fork on every value in [lo, hi]; the solver prunes infeasible ones.

    Downstream code sees a concrete int.  Only used for *structure*
    parameters; payloads stay symbolic.
    """
    for k in range(lo, hi + 1):
        if v == k:
            return k
    raise HarnessError("concretize: value outside [%d, %d]" % (lo, hi))


def cbool(b):
    """Fork on a symbolic bool and return a concrete one."""
    return True if b else False


_REACH = os.environ.get("VF_REACH") == "1"
REACHED = [0]   # number of harness executions that arrived at done() (per process)


def done(ok):
    """Final statement of every harness.

    In reach (vacuity-twin) mode a path that arrives here with a true
    verdict is turned into a refutation, so that CrossHair must report a
    counterexample: that is the witness that the assertion is reachable
    under the preconditions.
    """
    REACHED[0] += 1
    if _REACH:
        return not ok
    return ok


@dataclasses.dataclass
class Cond:
    """One harness condition = one CrossHair analysis of one function."""

    name: str
    fn: Callable
    timeout: float = 60.0          # per_condition_timeout (process seconds)
    tiers: tuple = ("quick", "thorough")
    bounds: str = ""               # human-readable statement of the bounds
    expect: str = "confirmed"      # or "refuted" for known-finding probes
    finding: Optional[str] = None  # key into known_findings.jsonl if expect refuted
    reach: bool = True             # run the vacuity twin
    group: str = ""
    pres: tuple = ()               # the precondition expressions (for generating further valid instances)


def source_hash(objs) -> Dict[str, str]:
    out = {}
    for o in objs:
        try:
            src = inspect.getsource(o)
        except Exception:
            continue
        name = getattr(o, "__module__", "") + "." + getattr(o, "__qualname__", repr(o))
        out[name] = hashlib.sha256(src.encode()).hexdigest()[:12]
    return out


def load_known_findings() -> List[dict]:
    out = []
    if os.path.exists(KNOWN_FINDINGS):
        for line in open(KNOWN_FINDINGS):
            line = line.strip()
            if line and not line.startswith("#"):
                out.append(json.loads(line))
    return out


def open_findings(prop) -> Dict[str, dict]:
    return {
        f["key"]: f
        for f in load_known_findings()
        if f.get("property") == prop and f.get("status") == "open"
    }


class Timer:
    def __enter__(self):
        self.t0 = time.time()
        return self

    def __exit__(self, *a):
        self.s = time.time() - self.t0
        return False


def write_evidence(prop, tier, seed, level, coverage, assumptions, wall_s, violations):
    os.makedirs(EVIDENCE_DIR, exist_ok=True)
    ev = {
        "property_id": prop,
        "tier": tier,
        "seed": int(seed),
        "level": level,
        "coverage": coverage,
        "assumptions": assumptions,
        "wall_s": round(float(wall_s), 2),
        "violations": int(violations),
    }
    path = os.path.join(EVIDENCE_DIR, prop + ".json")
    tmp = path + ".tmp"
    with open(tmp, "w") as f:
        json.dump(ev, f, indent=1, default=str)
    os.replace(tmp, path)
    return path


def mkh(glob, name, sig, pres, expr):
    """Generate a CrossHair harness function from text.

    sig   "x:int y:bool ..."          fixed-arity scalar parameters
    pres  list of precondition expressions (PEP316 `pre:` lines)
    expr  body expression (evaluated in `glob`), wrapped in done()

    CrossHair reads contracts from the function's *source*, so the source is
    registered in linecache under a synthetic file name.
    """
    import linecache

    params = ", ".join("%s: %s" % tuple(p.split(":")) for p in sig.split())
    lines = ["def %s(%s) -> bool:" % (name, params), '    """']
    lines += ["    pre: " + p for p in pres]
    lines += ["    post: _", '    """', "    return done(%s)" % expr, ""]
    src = "\n".join(lines)
    fname = "<vf-harness %s.%s>" % (glob.get("__name__", "?"), name)
    linecache.cache[fname] = (len(src), None, src.splitlines(True), fname)
    ns = {}
    glob.setdefault("done", done)
    exec(compile(src, fname, "exec"), glob, ns)
    fn = ns[name]
    fn.__module__ = glob.get("__name__", fn.__module__)
    glob[name] = fn
    return fn


def make_cond(glob, name, body, sig, pres, fixed=None, **kw):
    """Condition = harness body + fixed (concrete) keyword arguments + symbolic
    parameters with preconditions.  Registers BODIES[name] for replay."""
    params = [p.split(":")[0] for p in sig.split()]
    fixed = dict(fixed or {})
    glob.setdefault("BODIES", {})
    glob["BODIES"][name] = lambda E, **k: body(E, **fixed, **k)
    expr = "BODIES[%r](SYM, %s)" % (name, ", ".join("%s=%s" % (q, q) for q in params))
    fn = mkh(glob, "h_" + name, sig, pres, expr)
    return Cond(name, fn, pres=tuple(pres), **kw)


def split_conds(glob, name, body, sig, pres, over, values, fixed=None, bounds="", **kw):
    """One condition per value of the structure parameter `over` (so that the
    conditions run in parallel processes); the parameter becomes concrete."""
    out = []
    for v in values:
        f = dict(fixed or {})
        f[over] = v
        pres_v = [p.replace(over.upper(), repr(v)) for p in pres]   # OVER in a precondition = this value
        out.append(make_cond(glob, "%s_%s%s" % (name, over, v), body, sig, pres_v, fixed=f,
                             bounds="%s [%s=%s]" % (bounds, over, v), **kw))
    return out
