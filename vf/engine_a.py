"""Engine A driver: CrossHair over harness conditions, in parallel processes.

Verdict mapping (DESIGN 2.2):
  CONFIRMED                    -> confirmed (exhaustive within the harness bounds)
  POST_FAIL/EXEC_ERR/POST_ERR  -> candidate; replayed (vf.replay) against the real
                                  backends; reproduced => VIOLATION (or KNOWN-FINDING
                                  if listed), not reproduced => harness error
  CANNOT_CONFIRM / timeout     -> re-run alone with a 4x budget; still so => INCONCLUSIVE
  PRE_UNSAT                    -> harness error
Vacuity: every condition is re-run with VF_REACH=1 and must then be refuted.
"""
import json
import os
import subprocess
import sys
import tempfile
import time
from concurrent.futures import ThreadPoolExecutor

from .common import EXIT_HARNESS, EXIT_OK, EXIT_VIOLATION, REPLAY_DIR, VERIF, open_findings

PY = sys.executable
JOBS = int(os.environ.get("VF_JOBS", "14"))
SCALE = float(os.environ.get("VF_TIMEOUT_SCALE", "1.0"))


def _run_worker(modname, cond, timeout, reach=False):
    fd, out = tempfile.mkstemp(prefix="vf-", suffix=".json")
    os.close(fd)
    env = dict(os.environ)
    env["VF_REACH"] = "1" if reach else "0"
    env["PYTHONHASHSEED"] = "0"
    env.setdefault("PYTHONWARNINGS", "ignore")
    t0 = time.time()
    try:
        p = subprocess.run(
            [PY, "-m", "vf.ch_worker", modname, cond.name, str(timeout), out],
            cwd=VERIF, env=env, stdout=subprocess.PIPE, stderr=subprocess.STDOUT,
            timeout=timeout * 4 + 120,
        )
        try:
            res = json.load(open(out))
        except Exception:
            res = {"ok": False, "error": "worker produced no result: " + p.stdout.decode()[-2000:]}
    except subprocess.TimeoutExpired:
        res = {"ok": False, "error": "worker wall timeout", "wall_timeout": True}
    finally:
        try:
            os.unlink(out)
        except OSError:
            pass
    res["wall"] = round(time.time() - t0, 2)
    return res


def _state(res):
    if not res.get("ok"):
        return "WALL_TIMEOUT" if res.get("wall_timeout") else "WORKER_ERROR"
    states = [m["state"] for m in res["messages"]]
    for s in ("POST_FAIL", "EXEC_ERR", "POST_ERR"):
        if s in states:
            return "REFUTED"
    if "PRE_UNSAT" in states:
        return "PRE_UNSAT"
    if "CONFIRMED" in states:
        return "CONFIRMED"
    if "CANNOT_CONFIRM" in states:
        return "CANNOT_CONFIRM"
    return "OTHER:" + ",".join(states)


def _cex(res):
    for m in res["messages"]:
        if m["state"] in ("POST_FAIL", "EXEC_ERR", "POST_ERR"):
            return m
    return None


def run_replay(prop, modname, condname, args, cond=None):
    os.makedirs(REPLAY_DIR, exist_ok=True)
    path = os.path.join(REPLAY_DIR, "%s-%s.json" % (prop, condname))
    with open(path, "w") as f:
        json.dump({"property": prop, "module": modname, "cond": cond or condname, "args": args}, f, indent=1)
    p = subprocess.run([PY, "-m", "vf.replay", path], cwd=VERIF, stdout=subprocess.PIPE,
                       stderr=subprocess.STDOUT, timeout=900,
                       env={**os.environ, "VF_REACH": "0", "PYTHONWARNINGS": "ignore"})
    out = p.stdout.decode()
    try:
        verdict = json.loads(out.strip().splitlines()[-1])
    except Exception:
        verdict = {"reproduced": None, "detail": "replay crashed: " + out[-1500:]}
    verdict["path"] = path
    return verdict


def variants(cond, args, limit):
    """further valid instances near a witness: flip each bool / shift each int by +-1, keep those that satisfy
    the preconditions (deterministic; used only to compare stub and real backends, never as a verdict)"""
    out = []
    names = list(args)
    for name in names:
        v = args[name]
        cands = [not v] if isinstance(v, bool) else ([v + 1, v - 1] if isinstance(v, int) else [])
        for c in cands:
            a2 = dict(args)
            a2[name] = c
            try:
                if all(eval(p, {"len": len}, dict(a2)) for p in cond.pres):
                    out.append(a2)
            except Exception:  # noqa
                continue
            if len(out) >= limit:
                return out
    return out


def run_property(prop, modname, tier, seed, log=print):
    """Run all conditions of a harness module for a tier.  Returns
    (exit_code, per-condition records, violations, lines)."""
    import importlib

    mod = importlib.import_module(modname)
    conds = [c for c in mod.CONDS if tier in c.tiers]
    findings = open_findings(prop)
    records = {}
    exit_code = EXIT_OK
    violations = 0

    def job(c, reach):
        budget = c.timeout * SCALE
        if reach:
            budget = min(budget, 120 * SCALE)
        return c, reach, _run_worker(modname, c, budget, reach=reach)

    jobs = []
    for c in conds:
        jobs.append((c, False))
        if c.reach and c.expect == "confirmed":
            jobs.append((c, True))
    # longest first
    jobs.sort(key=lambda j: (-j[0].timeout, j[1]))
    with ThreadPoolExecutor(JOBS) as ex:
        results = list(ex.map(lambda j: job(*j), jobs))

    main = {c.name: r for c, reach, r in results if not reach}
    twin = {c.name: r for c, reach, r in results if reach}

    for c in conds:
        res = main[c.name]
        st = _state(res)
        rec = {
            "cond": c.name, "bounds": c.bounds, "state": st, "timeout": c.timeout,
            "paths": res.get("paths", 0), "reached": res.get("reached", 0), "z3_queries": res.get("z3_queries", 0),
            "z3_seconds": res.get("z3_seconds", 0.0), "z3_unknown": res.get("z3_unknown", 0),
            "wall": res.get("wall"), "exhaustive": False, "verdict": None,
        }
        if st in ("CANNOT_CONFIRM", "WALL_TIMEOUT"):
            log("  %s: inconclusive at %.0fs budget, re-running alone with 4x" % (c.name, c.timeout))
            res = _run_worker(modname, c, c.timeout * SCALE * 4)
            st = _state(res)
            rec.update(state=st, paths=res.get("paths", 0), reached=res.get("reached", 0),
                       z3_queries=res.get("z3_queries", 0),
                       z3_seconds=res.get("z3_seconds", 0.0), wall=res.get("wall"), retried=True)
        if st == "CONFIRMED":
            if c.expect == "refuted":
                # a listed finding no longer shows: that is fine (fixed), say so
                rec["verdict"] = "confirmed (finding %s not observed)" % c.finding
            else:
                rec["verdict"] = "confirmed"
            rec["exhaustive"] = True
        elif st == "REFUTED":
            m = _cex(res)
            rec["counterexample"] = {"message": m["message"][:600], "args": m["args"]}
            if m["args"] is None:
                rec["verdict"] = "harness-error: counterexample arguments could not be parsed"
                rec["traceback"] = m.get("traceback", "")[-1500:]
                exit_code = max(exit_code, EXIT_HARNESS)
            else:
                v = run_replay(prop, modname, c.name, m["args"])
                rec["replay"] = v
                if v.get("reproduced"):
                    key = v.get("key")
                    if key and key in findings:
                        rec["verdict"] = "known-finding:" + key
                        log("KNOWN-FINDING: property=%s %s (%s)" % (prop, key, findings[key].get("what", "")))
                    else:
                        rec["verdict"] = "violation"
                        violations += 1
                        exit_code = max(exit_code, EXIT_VIOLATION)
                        log("VIOLATION property=%s replay=%s" % (prop, v["path"]))
                        log("  condition %s args %s: %s" % (c.name, m["args"], v.get("detail", "")[:400]))
                else:
                    rec["verdict"] = "harness-error: counterexample does not reproduce on the real backends"
                    rec["traceback"] = m.get("traceback", "")[-1500:]
                    exit_code = max(exit_code, EXIT_HARNESS)
                    log("HARNESS-ERROR property=%s condition=%s: counterexample %s not reproduced: %s"
                        % (prop, c.name, m["args"], str(v.get("detail"))[:600]))
        elif st in ("CANNOT_CONFIRM", "WALL_TIMEOUT"):
            rec["verdict"] = "inconclusive"
            log("INCONCLUSIVE property=%s condition=%s (budget %.0fs x4 exhausted after %s paths)"
                % (prop, c.name, c.timeout, rec["paths"]))
        else:
            rec["verdict"] = "harness-error: " + st
            rec["error"] = (res.get("error") or json.dumps(res.get("messages")))[-2000:]
            exit_code = max(exit_code, EXIT_HARNESS)
            log("HARNESS-ERROR property=%s condition=%s: %s\n%s" % (prop, c.name, st, rec["error"][-800:]))
        # vacuity twin
        if c.name in twin:
            tst = _state(twin[c.name])
            rec["reach_twin"] = tst
            if tst == "REFUTED":
                rec["reachable"] = True
                # the twin's witness is a concrete instance on which the property holds under the
                # stubs: run the same instance on the REAL backends (real disk / xarray / pandas /
                # random): it must hold there too, else stub and reality disagree
                tm = _cex(twin[c.name])
                if tm and tm.get("args") is not None and rec["verdict"] == "confirmed":
                    v = run_replay(prop, modname, c.name + "__instance", tm["args"], cond=c.name)
                    rec["real_instance"] = {"args": tm["args"], "stub": v.get("stub"), "real": v.get("real")}
                    if v.get("real") == "fail" and v.get("stub") == "fail" and v.get("reproduced"):
                        # the instance fails when the real code is simply run on it - under the stubs and on the
                        # real backends alike - although every symbolic path passed: the engine does not see this
                        # behaviour (CrossHair by-passes functools.lru_cache, for one).  The failure is reproduced
                        # on the real code, so it is reported as what it is.
                        key = v.get("key")
                        if key and key in findings:
                            rec["verdict"] = "known-finding:" + key
                            log("KNOWN-FINDING: property=%s %s (%s)" % (prop, key, findings[key].get("what", "")))
                        else:
                            rec["verdict"] = "violation (plain run of a solver-chosen instance; not visible symbolically)"
                            rec["exhaustive"] = False
                            violations += 1
                            exit_code = max(exit_code, EXIT_VIOLATION)
                            log("VIOLATION property=%s replay=%s" % (prop, v["path"]))
                            log("  condition %s instance %s fails when run plainly on the real code (stubs and real "
                                "backends agree) although all symbolic paths passed: %s"
                                % (c.name, tm["args"], str(v.get("detail"))[:400]))
                    elif v.get("real") == "fail" or v.get("stub") == "fail":
                        rec["verdict"] = "harness-error: passing instance fails on the real backends (%s)" % (
                            str(v.get("detail"))[:300])
                        rec["exhaustive"] = False
                        exit_code = max(exit_code, EXIT_HARNESS)
                        log("HARNESS-ERROR property=%s condition=%s: instance %s holds under CrossHair but "
                            "fails on replay: %s" % (prop, c.name, tm["args"], str(v.get("detail"))[:400]))
                    else:
                        # a few more valid instances around the witness: stubs and real backends must agree
                        more = variants(c, tm["args"], 3 if tier == "quick" else 8)
                        agree = 0
                        with ThreadPoolExecutor(4) as ex2:
                            outs = list(ex2.map(lambda iv: run_replay(prop, modname, "%s__var%d" % (c.name, iv[0]),
                                                                      iv[1], cond=c.name), enumerate(more)))
                        for a2, v2 in zip(more, outs):
                            if v2.get("stub") in ("ok", "fail") and v2.get("real") in ("ok", "fail") \
                                    and v2.get("stub") != v2.get("real"):
                                rec["verdict"] = "harness-error: stubs and real backends disagree on %s" % (a2,)
                                rec["exhaustive"] = False
                                exit_code = max(exit_code, EXIT_HARNESS)
                                log("HARNESS-ERROR property=%s condition=%s: instance %s: stub %s / real %s: %s"
                                    % (prop, c.name, a2, v2.get("stub"), v2.get("real"), str(v2.get("detail"))[:300]))
                            elif v2.get("real") == "fail" and v2.get("stub") == "fail" and v2.get("reproduced"):
                                key = v2.get("key")
                                if key and key in findings:
                                    log("KNOWN-FINDING: property=%s %s (%s)" % (prop, key, findings[key].get("what", "")))
                                    continue
                                rec["verdict"] = "violation (plain run of a valid instance; not visible symbolically)"
                                rec["exhaustive"] = False
                                violations += 1
                                exit_code = max(exit_code, EXIT_VIOLATION)
                                log("VIOLATION property=%s replay=%s" % (prop, v2["path"]))
                                log("  condition %s instance %s fails when run plainly on the real code (stubs and "
                                    "real backends agree) although all symbolic paths passed: %s"
                                    % (c.name, a2, str(v2.get("detail"))[:400]))
                            elif v2.get("real") == "ok":
                                agree += 1
                        rec["real_instances_more"] = agree
            elif tst == "CONFIRMED" or tst == "PRE_UNSAT":
                rec["reachable"] = False
                if rec["verdict"] == "confirmed":
                    rec["verdict"] = "harness-error: vacuous (assertion point unreachable)"
                    rec["exhaustive"] = False
                    exit_code = max(exit_code, EXIT_HARNESS)
                    log("HARNESS-ERROR property=%s condition=%s: vacuity twin not refuted" % (prop, c.name))
            else:
                rec["reachable"] = None
        records[c.name] = rec
        log("  %-14s %-12s paths=%-5s z3q=%-6s z3s=%-7s wall=%ss %s" % (
            c.name, st, rec["paths"], rec["z3_queries"], rec["z3_seconds"], rec["wall"],
            "[VACUOUS]" if "vacuous" in str(rec["verdict"]) else ""))
    if violations:
        exit_code = EXIT_VIOLATION          # a reproduced violation is reported as such even if another
        #                                     condition ended in a harness error
    return exit_code, records, violations
